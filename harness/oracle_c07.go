package main

import (
	"fmt"
	"math/rand"
	"reflect"
	"strings"

	"sigs.k8s.io/kustomize/api/resource"
	"sigs.k8s.io/kustomize/kyaml/filesys"
	"sigs.k8s.io/kustomize/kyaml/kio/kioutil"
)

var internalAnnoPrefixes = []string{"internal.config.kubernetes.io/"}
var internalAnnoKeys = map[string]bool{"config.kubernetes.io/path": true, "config.kubernetes.io/index": true, "config.k8s.io/id": true,
	"config.kubernetes.io/origin": true, "alpha.config.kubernetes.io/transformations": true, "config.kubernetes.io/id": true,
	"kustomize.config.k8s.io/behavior": false, "kustomize.config.k8s.io/needs-hash": false}

func isBookkeepingKey(k string) bool {
	for _, b := range resource.BuildAnnotations {
		if k == b {
			return true
		}
	}
	for _, p := range internalAnnoPrefixes {
		if strings.HasPrefix(k, p) {
			return true
		}
	}
	return internalAnnoKeys[k]
}

func idOf(o Obj) string {
	md, _ := o["metadata"].(map[string]interface{})
	ns, _ := md["namespace"].(string)
	name, _ := md["name"].(string)
	return fmt.Sprintf("%v|%v|%s|%s", o["apiVersion"], o["kind"], ns, name)
}

func init() {
	oracles["C07"] = func(seed int64, n int, tier, work string) *oracleReport {
		o := newOracleRun("C07", seed)
		for _, cs := range caseSeeds(seed, n, "C07") {
			r := rand.New(rand.NewSource(cs))
			if r.Intn(6) == 0 {
				c07IdentitySpellings(o, r, cs)
				continue
			}
			if r.Intn(8) == 0 {
				c07Lists(o, r, cs)
				continue
			}
			f := allFeat()
			f.Adversarial = r.Intn(3) == 0
			t := genTree(r, f)
			addGenerators(r, t)
			if r.Intn(4) == 0 {
				// a late transformer (replacement) writes an identity field: an empty name, a name already taken, or a fresh one
				top := t.Layers[len(t.Layers)-1]
				cm := func(name string, data Obj) Obj {
					o := Obj{"apiVersion": "v1", "kind": "ConfigMap", "metadata": Obj{"name": name}}
					if data != nil {
						o["data"] = data
					}
					return o
				}
				top.ResF = append(top.ResF, "ident.yaml")
				top.Docs["ident.yaml"] = []Obj{cm("idsrc", Obj{"empty": "", "taken": "idtgt2", "fresh": "idnew"}), cm("idtgt", nil), cm("idtgt2", nil)}
				top.Kust["replacements"] = []interface{}{Obj{
					"source":  Obj{"kind": "ConfigMap", "name": "idsrc", "fieldPath": "data." + pickS(r, []string{"empty", "taken", "fresh"})},
					"targets": []interface{}{Obj{"select": Obj{"kind": "ConfigMap", "name": "idtgt"}, "fieldPaths": []interface{}{"metadata.name"}}},
				}}
				if r.Intn(2) == 0 {
					top.Kust["sortOptions"] = Obj{"order": "fifo"}
				}
			}
			if r.Intn(6) == 0 {
				// twins that differ in their namespace only, ONE of them marked local-config, under a namespace directive: the
				// move makes them collide; whatever happens to the build, two emitted resources never share an id
				L := t.Layers[r.Intn(len(t.Layers))]
				if L.NS == "" {
					L.NS = pickS(r, []string{"prod", "ns1"})
					L.Kust["namespace"] = L.NS
				}
				mk := func(ns string, local bool) Obj {
					md := Obj{"name": "twin", "namespace": ns}
					if local {
						md["annotations"] = Obj{"config.kubernetes.io/local-config": "true"}
					}
					return Obj{"apiVersion": "v1", "kind": "ConfigMap", "metadata": md, "data": Obj{"from": ns}}
				}
				first := r.Intn(2) == 0
				L.ResF = append(L.ResF, "twins.yaml")
				L.Docs["twins.yaml"] = []Obj{mk("ns-a", first), mk("ns-b", !first)}
			}
			if r.Intn(6) == 0 {
				// a resource that has no name (only `generateName`, an empty name, a null name): such a build fails, or — if it
				// ever succeeds — still emits nothing without a name
				L := t.Layers[r.Intn(len(t.Layers))]
				md := Obj{}
				switch r.Intn(4) {
				case 0:
					md["generateName"] = "backup-"
				case 1:
					md["generateName"] = "backup-"
					md["labels"] = Obj{"a": "b"}
				case 2:
					md["name"] = ""
					md["generateName"] = "x-"
				default:
					md["namespace"] = "somewhere"
					md["generateName"] = "y-"
				}
				L.ResF = append(L.ResF, "noname.yaml")
				L.Docs["noname.yaml"] = []Obj{{"apiVersion": "batch/v1", "kind": "Job", "metadata": md, "spec": Obj{"template": Obj{"spec": Obj{"containers": []interface{}{Obj{"name": "c", "image": "i"}}}}}}}
			}
			if r.Intn(3) == 0 {
				// documents that END in a block scalar with trailing line breaks (`|+`): the separator that follows must not eat them
				L := t.Layers[r.Intn(len(t.Layers))]
				tail := pickS(r, []string{"text\n\n", "two\nlines\n\n\n", "one\n", "\n\n", "no break"})
				var ds []Obj
				if r.Intn(2) == 0 {
					ds = append(ds, Obj{"apiVersion": "v1", "kind": "Secret", "metadata": Obj{"name": "trail-secret"}, "stringData": Obj{"a": "x", "note": tail}})
				}
				ds = append(ds, Obj{"apiVersion": "example.com/v1", "kind": "TrailKind", "metadata": Obj{"name": "trail-obj"}, "spec": Obj{"a": float64(1), "zz": tail}})
				if r.Intn(2) == 0 {
					ds = append(ds, Obj{"apiVersion": "v1", "kind": "Secret", "metadata": Obj{"name": "trail-last"}, "stringData": Obj{"note": tail}})
				}
				L.ResF = append(L.ResF, "trail.yaml")
				L.Docs["trail.yaml"] = ds
			}
			if r.Intn(4) == 0 {
				// inputs that already carry bookkeeping annotations (the output of an earlier build with buildMetadata,
				// or of another kio tool, fed back in): without buildMetadata none of them may survive
				for _, g := range t.Res {
					if g.Gen || r.Intn(3) != 0 {
						continue
					}
					md, _ := g.Obj["metadata"].(Obj)
					an, _ := md["annotations"].(Obj)
					if an == nil {
						continue
					}
					for _, kv := range [][2]string{{"config.kubernetes.io/origin", "path: old/res.yaml\n"},
						{"alpha.config.kubernetes.io/transformations", "- configuredIn: old/kustomization.yaml\n  configuredBy:\n    apiVersion: builtin\n    kind: PrefixTransformer\n"},
						{"config.kubernetes.io/path", "old/res.yaml"}, {"config.kubernetes.io/index", "0"},
						{"internal.config.kubernetes.io/path", "old/res.yaml"}, {"internal.config.kubernetes.io/index", "0"},
						// every reader-side key registered in resource.BuildAnnotations, legacy spellings included
						{kioutil.SeqIndentAnnotation, "compact"}, {kioutil.IdAnnotation, "1"}, {kioutil.LegacyIdAnnotation, "1"},
						{kioutil.InternalAnnotationsMigrationResourceIDAnnotation, "7"}, {kioutil.LegacyPathAnnotation, "old/res.yaml"},
						{kioutil.LegacyIndexAnnotation, "3"}} {
						if r.Intn(2) == 0 {
							an[kv[0]] = kv[1]
						}
					}
				}
			}
			fs := filesys.MakeFsInMemory()
			if err := t.Write(fs, "/w"); err != nil {
				panic(err)
			}
			out, err, pnc := safeBuild(func() (string, error) { return runBuild(fs, t.TopDir("/w"), nil) })
			if pnc != nil {
				o.note("panic", t.Describe())
				continue // C12's business
			}
			if err != nil {
				o.note(errClass(err), t.Describe())
				continue
			}
			o.note("ok", t.Describe())
			docs, perr := parseDocs(out)
			if perr != nil {
				o.fail("output-unparsable", "emitted YAML does not parse: "+perr.Error(), cs, t.Describe(), out, nil)
				continue
			}
			ids := map[string]bool{}
			for _, d := range docs {
				kind, _ := d["kind"].(string)
				md, _ := d["metadata"].(map[string]interface{})
				name, _ := md["name"].(string)
				if kind == "" || name == "" {
					o.fail("missing-kind-or-name", "output resource without kind or name", cs, t.Describe(), d, nil)
				}
				id := idOf(d)
				if ids[id] {
					o.fail("duplicate-id", "two output resources share apiVersion/kind/namespace/name: "+id, cs, t.Describe(), id, nil)
				}
				ids[id] = true
				if an, ok := md["annotations"].(map[string]interface{}); ok {
					for k := range an {
						if isBookkeepingKey(k) {
							o.fail("bookkeeping-annotation:"+k, "output carries internal annotation "+k, cs, t.Describe(), d, nil)
						}
					}
				}
			}
			// fixpoint: feeding the output through an empty kustomization reproduces it byte for byte
			fs2 := filesys.MakeFsInMemory()
			fs2.MkdirAll("/f")
			fs2.WriteFile("/f/out.yaml", []byte(out))
			fs2.WriteFile("/f/kustomization.yaml", []byte("resources:\n- out.yaml\n"))
			out2, err2, _ := safeBuild(func() (string, error) { return runBuild(fs2, "/f", nil) })
			if err2 != nil {
				o.fail("rebuild-fails", "building the emitted output fails: "+err2.Error(), cs, t.Describe(), nil, nil)
			} else if out2 != out {
				docs2, _ := parseDocs(out2)
				cls := "rebuild-differs-bytes"
				if !reflect.DeepEqual(docs, docs2) {
					cls = "rebuild-differs-objects"
				}
				o.fail(cls, "output is not a fixpoint of a no-op build", cs, t.Describe(), firstDiff(out, out2), nil)
			}
		}
		return o.rep
	}
}

// c07IdentitySpellings: raw resource files in which one document spells an identity field in a null-ish or empty
// way (explicit null in its YAML 1.1/1.2 spellings, empty, absent), alone or beside directives that do not rewrite
// the name.  Either the build rejects the input or every emitted resource has a non-empty string kind and name.
func c07IdentitySpellings(o *oracleRun, r *rand.Rand, cs int64) {
	nullish := []string{"null", "~", "", `""`, "Null", "NULL", "!!null null", "''", "<absent>"}
	field := func(indent, key, v string) string {
		if v == "<absent>" {
			return ""
		}
		if v == "" {
			return indent + key + ":\n"
		}
		return indent + key + ": " + v + "\n"
	}
	var sb strings.Builder
	nd := 1 + r.Intn(3)
	odd := r.Intn(nd)
	what := ""
	for i := 0; i < nd; i++ {
		if i > 0 {
			sb.WriteString("---\n")
		}
		kind, name, ns := pickS(r, []string{"ConfigMap", "Deployment", "Service", "MyKind"}), fmt.Sprintf("r%d", i), "<absent>"
		if i == odd {
			v := pickS(r, nullish)
			switch r.Intn(5) {
			case 0:
				kind, what = v, "kind="+v
			case 1:
				ns, what = v, "namespace="+v
			default:
				name, what = v, "name="+v
			}
		}
		sb.WriteString("apiVersion: " + pickS(r, []string{"v1", "apps/v1", "example.com/v1"}) + "\n")
		sb.WriteString(field("", "kind", kind))
		if i == odd && r.Intn(12) == 0 {
			sb.WriteString("metadata: " + pickS(r, []string{"null", "{}", "~"}) + "\n")
			what = "metadata-empty"
		} else {
			sb.WriteString("metadata:\n" + field("  ", "name", name) + field("  ", "namespace", ns) + "  labels:\n    a: b\n")
		}
		sb.WriteString("data:\n  k: v\n")
	}
	k := "resources:\n- res.yaml\n"
	switch r.Intn(5) {
	case 0:
		k += "commonLabels:\n  app: x\n"
	case 1:
		k += "commonAnnotations:\n  note: y\n"
	case 2:
		k += "buildMetadata: [originAnnotations]\n"
	case 3:
		k += "sortOptions:\n  order: fifo\n"
	}
	fs := filesys.MakeFsInMemory()
	fs.MkdirAll("/w")
	fs.WriteFile("/w/res.yaml", []byte(sb.String()))
	fs.WriteFile("/w/kustomization.yaml", []byte(k))
	input := map[string]string{"/w/res.yaml": sb.String(), "/w/kustomization.yaml": k, "odd": what}
	out, err, pnc := safeBuild(func() (string, error) { return runBuild(fs, "/w", nil) })
	if pnc != nil {
		o.note("spelling-panic", input)
		return
	}
	if err != nil {
		o.note("spelling-rejected", input)
		return
	}
	o.note("spelling-accepted", input)
	docs, perr := parseDocs(out)
	if perr != nil {
		o.fail("output-unparsable", "emitted YAML does not parse: "+perr.Error(), cs, input, out, nil)
		return
	}
	for _, d := range docs {
		kind, _ := d["kind"].(string)
		md, _ := d["metadata"].(map[string]interface{})
		name, _ := md["name"].(string)
		if kind == "" || name == "" {
			o.fail("missing-kind-or-name", "output resource without kind or name ("+what+")", cs, input, d, nil)
		}
	}
}

// c07Lists: resource files made of `*List` wrappers — plain and typed, nested in one another to depth 3, beside plain
// documents, in multi-document files.  The build either rejects the file or emits every leaf as a resource of its own
// (kind and name present, ids unique), and the output is a fixpoint of a directive-free build.
func c07Lists(o *oracleRun, r *rand.Rand, cs int64) {
	n := 0
	var gen func(depth int, indent string) string
	leaf := func(indent string) string {
		n++
		return fmt.Sprintf("%sapiVersion: v1\n%skind: ConfigMap\n%smetadata:\n%s  name: leaf%d\n%sdata:\n%s  k: v%d\n", indent, indent, indent, indent, n, indent, indent, n)
	}
	gen = func(depth int, indent string) string {
		if depth == 0 || r.Intn(3) == 0 {
			return leaf(indent)
		}
		kind := pickS(r, []string{"List", "ConfigMapList", "List"})
		k := r.Intn(4)
		if k == 0 {
			return fmt.Sprintf("%sapiVersion: v1\n%skind: %s\n%sitems: []\n", indent, indent, kind, indent)
		}
		var sb strings.Builder
		fmt.Fprintf(&sb, "%sapiVersion: v1\n%skind: %s\n", indent, indent, kind)
		if r.Intn(3) == 0 {
			fmt.Fprintf(&sb, "%smetadata: {}\n", indent)
		}
		fmt.Fprintf(&sb, "%sitems:\n", indent)
		for i := 0; i < k; i++ {
			item := gen(depth-1, indent+"  ")
			// first line of the item carries the dash
			sb.WriteString(indent + "- " + strings.TrimPrefix(item, indent+"  "))
		}
		return sb.String()
	}
	var docs []string
	for i := 1 + r.Intn(3); i > 0; i-- {
		docs = append(docs, gen(1+r.Intn(3), ""))
	}
	res := strings.Join(docs, "---\n")
	k := "resources:\n- res.yaml\n" + pickS(r, []string{"", "namePrefix: p-\n", "commonLabels:\n  a: b\n", "sortOptions:\n  order: fifo\n"})
	fs := filesys.MakeFsInMemory()
	fs.MkdirAll("/w")
	fs.WriteFile("/w/res.yaml", []byte(res))
	fs.WriteFile("/w/kustomization.yaml", []byte(k))
	input := map[string]string{"/w/res.yaml": res, "/w/kustomization.yaml": k}
	out, err, pnc := safeBuild(func() (string, error) { return runBuild(fs, "/w", nil) })
	if pnc != nil {
		o.note("lists-panic", input)
		return
	}
	if err != nil {
		o.note("lists-rejected", input)
		return
	}
	o.note("lists-ok", input)
	outDocs, perr := parseDocs(out)
	if perr != nil {
		o.fail("output-unparsable", "emitted YAML does not parse: "+perr.Error(), cs, input, out, nil)
		return
	}
	ids := map[string]bool{}
	for _, d := range outDocs {
		kind, _ := d["kind"].(string)
		md, _ := d["metadata"].(map[string]interface{})
		name, _ := md["name"].(string)
		if kind == "" || name == "" {
			o.fail("missing-kind-or-name", "output document without kind or name (an unexpanded list wrapper?)", cs, input, d, nil)
		}
		if strings.HasSuffix(kind, "List") {
			o.fail("list-wrapper-emitted", "a *List wrapper is emitted as a resource", cs, input, d, nil)
		}
		id := idOf(d)
		if ids[id] {
			o.fail("duplicate-id", "two output resources share an id: "+id, cs, input, id, nil)
		}
		ids[id] = true
	}
	if len(outDocs) != n {
		o.fail("resource-count", fmt.Sprintf("%d leaves in the input, %d documents in the output", n, len(outDocs)), cs, input, len(outDocs), n)
	}
	fs2 := filesys.MakeFsInMemory()
	fs2.MkdirAll("/f")
	fs2.WriteFile("/f/out.yaml", []byte(out))
	fs2.WriteFile("/f/kustomization.yaml", []byte("resources:\n- out.yaml\n"+pickS(r, []string{"", "sortOptions:\n  order: fifo\n"})))
	out2, err2, _ := safeBuild(func() (string, error) { return runBuild(fs2, "/f", nil) })
	if err2 != nil {
		o.fail("rebuild-fails", "building the emitted output fails: "+err2.Error(), cs, input, nil, nil)
	} else if d1, _ := parseDocs(out2); len(d1) != len(outDocs) {
		o.fail("rebuild-differs-objects", "the rebuilt output has another number of documents", cs, input, len(d1), len(outDocs))
	}
}

func firstDiff(a, b string) string {
	la, lb := strings.Split(a, "\n"), strings.Split(b, "\n")
	for i := 0; i < len(la) && i < len(lb); i++ {
		if la[i] != lb[i] {
			return fmt.Sprintf("line %d: %q vs %q", i+1, la[i], lb[i])
		}
	}
	return fmt.Sprintf("length %d vs %d lines", len(la), len(lb))
}
