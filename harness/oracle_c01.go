package main

import (
	"strings"
	"bufio"
	"encoding/json"
	"flag"
	"fmt"
	"math/rand"
	"os"
	"os/exec"

	"sigs.k8s.io/kustomize/api/krusty"
	"sigs.k8s.io/kustomize/kyaml/filesys"
)

const customSchemaYAML = `definitions:
  v1.MyKind:
    properties:
      apiVersion:
        type: string
      kind:
        type: string
      metadata:
        type: object
      spec:
        type: object
        properties:
          items:
            type: array
            items:
              "$ref": "#/definitions/v1.MyItem"
            x-kubernetes-patch-merge-key: name
            x-kubernetes-patch-strategy: merge
    type: object
    x-kubernetes-group-version-kind:
    - group: example.com
      kind: MyKind
      version: v1
  v1.MyItem:
    type: object
    properties:
      name:
        type: string
      v:
        type: integer
`

// a custom schema that SHADOWS names of the built-in one (as the repository's own krusty test schema does): its
// PodTemplateSpec/PodSpec/Container are cut down, so lists below them merge by other keys than under the built-in schema
const shadowSchemaYAML = `definitions:
  v1alpha1.MyCRD:
    type: object
    properties:
      apiVersion: {type: string}
      kind: {type: string}
      metadata: {type: object}
      spec:
        type: object
        properties:
          template:
            "$ref": "#/definitions/io.k8s.api.core.v1.PodTemplateSpec"
    x-kubernetes-group-version-kind:
    - {group: example.com, kind: MyCRD, version: v1alpha1}
  io.k8s.api.core.v1.PodTemplateSpec:
    type: object
    properties:
      metadata:
        "$ref": "#/definitions/io.k8s.apimachinery.pkg.apis.meta.v1.ObjectMeta"
      spec:
        "$ref": "#/definitions/io.k8s.api.core.v1.PodSpec"
  io.k8s.apimachinery.pkg.apis.meta.v1.ObjectMeta:
    type: object
    properties:
      name: {type: string}
  io.k8s.api.core.v1.PodSpec:
    type: object
    properties:
      containers:
        type: array
        items:
          "$ref": "#/definitions/io.k8s.api.core.v1.Container"
        x-kubernetes-patch-merge-key: name
        x-kubernetes-patch-strategy: merge
  io.k8s.api.core.v1.Container:
    type: object
    properties:
      name: {type: string}
      image: {type: string}
      command:
        type: array
        items: {type: string}
`

// podBody: a pod template whose lists merge differently under the built-in schema (volumeMounts by mountPath, ports by
// containerPort, env by name) and under a schema that knows nothing about them
const podBase = `  template:
    spec:
      containers:
      - name: app
        image: app:1
        ports:
        - {containerPort: 80, name: http}
        volumeMounts:
        - {name: data, mountPath: /data}
`
const podPatch = `  template:
    spec:
      containers:
      - name: app
        ports:
        - {containerPort: 81, name: http}
        volumeMounts:
        - {name: data, mountPath: /var/cache}
`

// c01Tree: the tree of a C01 case is a pure function of its seed. custom=true adds `openapi: {path: …}` at the top.
func c01Tree(cs int64, forceCustom int) (*Tree, bool) {
	r := rand.New(rand.NewSource(cs))
	f := allFeat()
	t := genTree(r, f)
	addGenerators(r, t)
	custom := r.Intn(4) == 0
	if forceCustom == 1 {
		custom = true
	} else if forceCustom == 0 {
		custom = false
	}
	top := t.Layers[len(t.Layers)-1]
	// transformer configurations: extra field specs for custom kinds are merged into (a copy of) the built-in defaults
	for _, L := range t.Layers {
		if r.Intn(3) != 0 {
			continue
		}
		var cfg strings.Builder
		if r.Intn(2) == 0 {
			cfg.WriteString("commonAnnotations:\n- path: spec/annos\n  kind: " + pickS(r, []string{"MyKind", "OtherKind", "AKind"}) + "\n  create: true\n")
		}
		if r.Intn(2) == 0 {
			cfg.WriteString("commonLabels:\n- path: spec/lbls\n  kind: " + pickS(r, []string{"MyKind", "AKind"}) + "\n  create: true\n")
		}
		if r.Intn(3) == 0 {
			cfg.WriteString("namePrefix:\n- path: spec/ref\n  kind: MyKind\n")
		}
		if r.Intn(3) == 0 {
			cfg.WriteString("images:\n- path: spec/img\n  kind: " + pickS(r, []string{"MyKind", "BKind"}) + "\n")
		}
		if r.Intn(3) == 0 {
			cfg.WriteString("nameReference:\n- kind: ConfigMap\n  fieldSpecs:\n  - path: spec/cmRef\n    kind: MyKind\n")
		}
		if cfg.Len() > 0 {
			L.Files["tcfg.yaml"] = cfg.String()
			L.Kust["configurations"] = []interface{}{"tcfg.yaml"}
		}
	}
	if r.Intn(4) == 0 {
		// a directive that is bound to fail (or to fail unless the tree happens to satisfy it): the ERROR of a build is
		// part of its result and must be the same text on every repetition and after every history
		L := t.Layers[r.Intn(len(t.Layers))]
		cmSrc := Obj{"apiVersion": "v1", "kind": "ConfigMap", "metadata": Obj{"name": "failsrc"}, "data": Obj{"v": "a:b", "w": "x"}}
		cmTgt := Obj{"apiVersion": "v1", "kind": "ConfigMap", "metadata": Obj{"name": "failtgt", "labels": Obj{"q": "r"}}, "data": Obj{"k": "v"}, "list": []interface{}{"a"}}
		addPair := func() {
			L.ResF = append(L.ResF, "failpair.yaml")
			L.Docs["failpair.yaml"] = []Obj{cmSrc, cmTgt}
		}
		repl := func(src Obj, tgt Obj) {
			addPair()
			L.Kust["replacements"] = []interface{}{Obj{"source": src, "targets": []interface{}{tgt}}}
		}
		src := Obj{"kind": "ConfigMap", "name": "failsrc", "fieldPath": "data.v"}
		sel := Obj{"kind": "ConfigMap", "name": "failtgt"}
		switch r.Intn(15) {
		case 0:
			repl(src, Obj{"select": sel, "fieldPaths": []interface{}{"data.nothere"}})
		case 1:
			repl(src, Obj{"select": sel, "fieldPaths": []interface{}{"list.5"}})
		case 2:
			repl(src, Obj{"select": sel, "fieldPaths": []interface{}{"metadata.labels"}, "options": Obj{"delimiter": ":"}})
		case 3:
			repl(Obj{"kind": "ConfigMap", "name": "failsrc", "fieldPath": "data.v", "options": Obj{"delimiter": ":", "index": 7}}, Obj{"select": sel, "fieldPaths": []interface{}{"data.k"}})
		case 4:
			repl(Obj{"kind": "ConfigMap", "fieldPath": "data.v"}, Obj{"select": sel, "fieldPaths": []interface{}{"data.k"}})
		case 5:
			repl(Obj{"kind": "ConfigMap", "name": "nobody"}, Obj{"select": sel, "fieldPaths": []interface{}{"data.k"}})
		case 6:
			repl(Obj{"kind": "ConfigMap", "name": "failsrc", "fieldPath": "data.zz"}, Obj{"select": sel})
		case 7:
			addPair()
			L.Kust["patches"] = []interface{}{Obj{"target": Obj{"kind": "ConfigMap", "name": "failtgt"}, "patch": "- op: remove\n  path: /data/nothere\n"}}
		case 8:
			addPair()
			L.Kust["patches"] = []interface{}{Obj{"target": Obj{"kind": "ConfigMap", "name": "failtgt"}, "patch": "- op: test\n  path: /data/k\n  value: other\n"}}
		case 9:
			L.Kust["patchesStrategicMerge"] = []interface{}{"nopatch.yaml"}
			L.Files["nopatch.yaml"] = "apiVersion: v1\nkind: ConfigMap\nmetadata:\n  name: nosuchtarget\ndata:\n  a: b\n"
		case 10:
			L.Kust["configMapGenerator"] = []interface{}{Obj{"name": "nosuchgen", "behavior": pickS(r, []string{"merge", "replace"}), "literals": []interface{}{"a=b"}}}
		case 11:
			L.ResF = append(L.ResF, "dup.yaml")
			L.Docs["dup.yaml"] = []Obj{cmTgt, cmTgt}
		case 12, 14:
			// several vars fail at once: WHICH one the error names must not vary
			addPair()
			var vs []interface{}
			for _, n := range []string{"V_ONE", "A_TWO", "M_THREE", "Z_FOUR"}[:1+r.Intn(4)] {
				vs = append(vs, Obj{"name": n, "objref": Obj{"kind": "ConfigMap", "name": pickS(r, []string{"failsrc", "failtgt"}), "apiVersion": "v1"}, "fieldref": Obj{"fieldpath": "data.nothere" + n}})
			}
			L.Kust["vars"] = vs
		default:
			L.Kust["configMapGenerator"] = []interface{}{Obj{"name": "badgen", "literals": []interface{}{"noequals"}, "files": []interface{}{"nofile.txt"}}}
		}
	}
	if custom {
		top.Files["schema.yaml"] = customSchemaYAML
		top.Kust["openapi"] = Obj{"path": "schema.yaml"}
	} else if r.Intn(6) == 0 {
		top.Kust["openapi"] = Obj{"version": "v1.21.2"}
	}
	// build metadata requested by SOME trees only: labels / annotations a build adds on request must not show up in the next one
	if r3 := rand.New(rand.NewSource(cs ^ 0x3e7a)); r3.Intn(4) == 0 {
		var bm []interface{}
		for _, o := range []string{"managedByLabel", "originAnnotations", "transformerAnnotations"} {
			if r3.Intn(2) == 0 {
				bm = append(bm, o)
			}
		}
		if len(bm) > 0 {
			top.Kust["buildMetadata"] = bm
		}
	}
	// schema-sensitive merges: a workload (or, under a shadowing custom schema, a custom kind reusing the built-in names)
	// patched in lists whose merge key comes from the schema — what such a build emits depends on which definitions the
	// references resolve to, so anything that outlives a schema switch shows here
	if r2 := rand.New(rand.NewSource(cs ^ 0x7a11)); r2.Intn(3) == 0 {
		resFile, resDoc, patch := "", "", ""
		if custom {
			top.Files["schema.yaml"] = shadowSchemaYAML
			resFile = "vm-mycrd.yaml"
			resDoc = "apiVersion: example.com/v1alpha1\nkind: MyCRD\nmetadata:\n  name: vm-svc\nspec:\n" + podBase
			patch = "apiVersion: example.com/v1alpha1\nkind: MyCRD\nmetadata:\n  name: vm-svc\nspec:\n" + podPatch
		} else {
			resFile = "vm-deploy.yaml"
			resDoc = "apiVersion: apps/v1\nkind: Deployment\nmetadata:\n  name: vm-web\nspec:\n" + podBase
			patch = "apiVersion: apps/v1\nkind: Deployment\nmetadata:\n  name: vm-web\nspec:\n" + podPatch
		}
		if !custom {
			// two strategic-merge patches that name the SAME resource under two spellings of its id (with and without
			// `namespace: default`) and set the same field: they apply in the order they are listed, every time
			psm, _ := top.Kust["patchesStrategicMerge"].([]interface{})
			top.Kust["patchesStrategicMerge"] = append(psm, "vm-psm-a.yaml", "vm-psm-b.yaml")
			top.Files["vm-psm-a.yaml"] = "apiVersion: apps/v1\nkind: Deployment\nmetadata:\n  name: vm-web\n  namespace: default\nspec:\n  replicas: 2\n"
			top.Files["vm-psm-b.yaml"] = "apiVersion: apps/v1\nkind: Deployment\nmetadata:\n  name: vm-web\nspec:\n  replicas: 5\n"
		}
		ps, _ := top.Kust["patches"].([]interface{})
		top.Kust["patches"] = append(ps, Obj{"path": "vm-patch.yaml"})
		top.Files["vm-patch.yaml"] = patch
		top.Files[resFile] = resDoc
		topDir := top.Dir
		prev := t.PostWrite
		t.PostWrite = func(fs filesys.FileSystem, root string) {
			if prev != nil {
				prev(fs, root)
			}
			p := root + "/" + topDir + "/kustomization.yaml"
			b, _ := fs.ReadFile(p)
			if strings.Contains(string(b), "\nresources:\n") || strings.HasPrefix(string(b), "resources:\n") {
				fs.WriteFile(p, []byte(strings.Replace(string(b), "resources:\n", "resources:\n- "+resFile+"\n", 1)))
			} else {
				fs.WriteFile(p, append(b, []byte("resources:\n- "+resFile+"\n")...))
			}
		}
	}
	return t, custom
}

// one Kustomizer (and one Options value) for every build of the process: `Run` may be called any number of times, and
// nothing a build does may stay behind in it
var c01Shared = krusty.MakeKustomizer(krusty.MakeDefaultOptions())

func buildTreeShared(t *Tree) (string, string) {
	fs := filesys.MakeFsInMemory()
	if err := t.Write(fs, "/w"); err != nil {
		return "", "write:" + err.Error()
	}
	out, err, _ := safeBuild(func() (string, error) {
		m, err := c01Shared.Run(fs, t.TopDir("/w"))
		if err != nil {
			return "", err
		}
		b, err := m.AsYaml()
		return string(b), err
	})
	if err != nil {
		return "", err.Error()
	}
	return out, ""
}

func buildTreeMem(t *Tree) (string, string) {
	fs := filesys.MakeFsInMemory()
	if err := t.Write(fs, "/w"); err != nil {
		return "", "write:" + err.Error()
	}
	out, err, _ := safeBuild(func() (string, error) { return runBuild(fs, t.TopDir("/w"), nil) })
	if err != nil {
		return "", err.Error()
	}
	return out, ""
}

func init() {
	// worker: one fresh process builds the trees whose seeds arrive on stdin, ONE PER PROCESS LIFE is the caller's job
	extraCmds["c01worker"] = func(args []string) {
		fs := flag.NewFlagSet("c01worker", flag.ExitOnError)
		seed := fs.Int64("seed", 0, "case seed")
		fc := fs.Int("custom", -1, "force custom schema")
		fs.Parse(args)
		t, _ := c01Tree(*seed, *fc)
		out, e := buildTreeShared(t)
		b, _ := json.Marshal(map[string]string{"out": out, "err": e})
		w := bufio.NewWriter(os.Stdout)
		w.Write(b)
		w.Flush()
	}
	oracles["C01"] = func(seed int64, n int, tier, work string) *oracleReport {
		o := newOracleRun("C01", seed)
		reps := 3
		if tier == "thorough" {
			reps = 10
		}
		self, _ := os.Executable()
		for _, cs := range caseSeeds(seed, n, "C01") {
			r := rand.New(rand.NewSource(cs ^ 0x5eed))
			t, custom := c01Tree(cs, -1)
			// fresh process: the reference result of "T alone"
			cmd := exec.Command(self, "c01worker", "--seed", fmt.Sprint(cs))
			raw, err := cmd.Output()
			if err != nil {
				o.note("worker-crash", cs)
				o.fail("fresh-process-crash", "building T alone in a fresh process crashed: "+err.Error(), cs, t.Describe(), nil, nil)
				continue
			}
			var ref map[string]string
			json.Unmarshal(raw, &ref)
			// history: 0-3 other builds in this process
			nh := r.Intn(4)
			hist := []interface{}{}
			histCustom := false
			for i := 0; i < nh; i++ {
				hs := r.Int63()
				ht, hc := c01Tree(hs, -1)
				histCustom = histCustom || hc
				buildTreeShared(ht)
				hist = append(hist, map[string]interface{}{"seed": hs, "custom": hc})
			}
			cls := "ok"
			if ref["err"] != "" {
				cls = "err"
			}
			if custom {
				cls += "+custom"
			}
			if histCustom {
				cls += "+hist-custom"
			}
			o.note(cls, map[string]interface{}{"seed": cs, "history": hist})
			for k := 0; k < reps; k++ {
				out, e := buildTreeShared(t)
				if out != ref["out"] || e != ref["err"] {
					class := "history-or-repetition-dependence"
					if histCustom && !custom {
						class = "history-custom-openapi-schema-leaks-into-later-build"
					}
					got := e
					if e == "" {
						got = firstDiff(ref["out"], out)
					}
					o.fail(class, fmt.Sprintf("output of T after history H differs from T alone (repetition %d)", k), cs,
						map[string]interface{}{"tree": t.Describe(), "history": hist, "seed": cs}, got, ref["err"])
					break
				}
			}
		}
		return o.rep
	}
}
