package main

import (
	"reflect"
	"fmt"
	"math/rand"

	"sigs.k8s.io/kustomize/kyaml/filesys"
)

func strMap(v interface{}) map[string]string {
	out := map[string]string{}
	m, _ := v.(map[string]interface{})
	for k, x := range m {
		out[k] = fmt.Sprint(x)
	}
	return out
}

func subsetOf(a, b map[string]string) bool {
	for k, v := range a {
		if b[k] != v {
			return false
		}
	}
	return true
}

func selectorOf(kind string, o Obj) (map[string]string, bool) {
	switch kind {
	case "Deployment", "StatefulSet", "DaemonSet", "ReplicaSet":
		v, ok := getPath(map[string]interface{}(o), ipath(nil, "spec", "selector", "matchLabels"))
		return strMap(v), ok
	case "ReplicationController", "Service":
		v, ok := getPath(map[string]interface{}(o), ipath(nil, "spec", "selector"))
		return strMap(v), ok
	case "NetworkPolicy":
		v, ok := getPath(map[string]interface{}(o), ipath(nil, "spec", "podSelector", "matchLabels"))
		return strMap(v), ok
	case "PodDisruptionBudget":
		v, ok := getPath(map[string]interface{}(o), ipath(nil, "spec", "selector", "matchLabels"))
		return strMap(v), ok
	}
	return nil, false
}

func podLabelsOf(kind string, o Obj) (map[string]string, bool) {
	if kind == "Pod" {
		v, ok := getPath(map[string]interface{}(o), ipath(nil, "metadata", "labels"))
		return strMap(v), ok
	}
	tm := templateMetaPath(kind)
	if tm == nil {
		return nil, false
	}
	v, ok := getPath(map[string]interface{}(o), ipath(tm, "labels"))
	return strMap(v), ok
}

func isWorkload(kind string) bool {
	for _, k := range workloadKinds {
		if k == kind {
			return true
		}
	}
	return false
}

// C08: labels reach metadata, selectors and templates consistently.
func init() {
	oracles["C08"] = func(seed int64, n int, tier, work string) *oracleReport {
		o := newOracleRun("C08", seed)
		for _, cs := range caseSeeds(seed, n, "C08") {
			r := rand.New(rand.NewSource(cs))
			f := allFeat()
			f.Images, f.Replicas, f.PatchJSON, f.PatchSM, f.Generators = false, false, false, false, false
			f.Dense = true
			t := genTree(r, f)
			// selecting objects next to each workload (same layer = same label directives)
			for li, L := range t.Layers {
				var add []Obj
				for _, g := range t.Res {
					if g.Layer != li || !isWorkload(g.Kind) || r.Intn(2) == 0 {
						continue
					}
					kind := pickS(r, []string{"Service", "Service", "NetworkPolicy", "PodDisruptionBudget"})
					id := t.newID()
					name := "sel-" + g.Name + "-" + id
					o2 := Obj{"apiVersion": apiVersionOf(kind), "kind": kind, "metadata": meta(id, name, g.NS, nil)}
					sel := Obj{"app": g.Name}
					switch kind {
					case "Service":
						o2["spec"] = Obj{"selector": sel, "ports": []interface{}{Obj{"port": float64(80)}}}
					case "NetworkPolicy":
						o2["spec"] = Obj{"podSelector": Obj{"matchLabels": sel}}
					case "PodDisruptionBudget":
						o2["spec"] = Obj{"minAvailable": float64(1), "selector": Obj{"matchLabels": sel}}
					}
					t.addRes(li, kind, name, g.NS, o2)
					add = append(add, o2)
				}
				if len(add) > 0 {
					L.ResF = append(L.ResF, "selectors.yaml")
					L.Docs["selectors.yaml"] = add
				}
			}
			// same kind NAME under a foreign API group (an operator's own StatefulSet, Job, …), loaded BEFORE the built-in
			// one: the group-qualified field specs do not apply to it, and must still apply to the built-in resource
			for li, L := range t.Layers {
				var twins []Obj
				for _, g := range append([]*GenRes{}, t.Res...) {
					if g.Layer != li || g.Gen || r.Intn(4) != 0 {
						continue
					}
					switch g.Kind {
					case "StatefulSet", "Deployment", "DaemonSet", "ReplicaSet", "Job", "CronJob", "PodDisruptionBudget", "NetworkPolicy":
					default:
						continue
					}
					id := t.newID()
					name := g.Name + "-frn"
					tw := deepCopyJSON(map[string]interface{}(g.Obj)).(map[string]interface{})
					tw["apiVersion"] = pickS(r, []string{"apps.example.io/v1beta1", "batch.example.io/v1alpha1", "ext.example.io/v1"})
					tw["metadata"] = meta(id, name, g.NS, nil)
					// the default specs for Deployment, ReplicaSet and DaemonSet selectors/templates carry NO group: a same-named
					// kind of another group is labelled like the built-in one (reviewed against commonlabels.go /
					// metadatalabels.go); the other kinds' specs are group-qualified and reach metadata.labels only
					twKind := "Foreign-" + g.Kind
					if g.Kind == "Deployment" || g.Kind == "ReplicaSet" || g.Kind == "DaemonSet" {
						twKind = g.Kind
					}
					t.addRes(li, twKind, name, g.NS, Obj(tw))
					twins = append(twins, Obj(tw))
				}
				if len(twins) > 0 {
					L.ResF = append([]string{"foreign.yaml"}, L.ResF...)
					L.Docs["foreign.yaml"] = twins
				}
			}
			// annotation directives as frequent as label directives; some workloads carry the directive's pair on their metadata
			// already (from their file): the pod template needs it all the same
			for _, L := range t.Layers {
				if L.Annos == nil && r.Intn(2) == 0 {
					L.Annos = map[string]string{"note": pickS(r, []string{"hello", "x y"})}
					L.Kust["commonAnnotations"] = toObj(L.Annos)
				}
			}
			for _, g := range t.Res {
				if !g.Gen && isWorkload(g.Kind) && r.Intn(3) == 0 {
					if md, ok := g.Obj["metadata"].(Obj); ok {
						if an, ok := md["annotations"].(Obj); ok {
							an["note"] = pickS(r, []string{"hello", "x y"})
						}
					}
				}
			}
			// make label directives frequent
			for _, L := range t.Layers {
				if L.Labels == nil && r.Intn(2) == 0 {
					L.Labels = map[string]string{pickS(r, []string{"env", "tier", "app"}): pickS(r, []string{"dev", "prod"})}
					L.Kust["commonLabels"] = toObj(L.Labels)
				}
			}
			// a `labels` entry with its OWN field specs (`fields`: here the Service selector, next to includeTemplates — a pair
			// that stays consistent by itself), placed before the plain entries of its layer: its fields are its own, they
			// apply neither to the entries after it nor to the entries of the layers above
			fieldsLabels := map[int]map[string]string{}
			shadowLayers := map[int]bool{}
			for li, L := range t.Layers {
				if r.Intn(3) != 0 {
					continue
				}
				kv := map[string]string{"viafields": pickS(r, []string{"q", "w"})}
				fieldsLabels[li] = kv
				e := Obj{"pairs": toObj(kv), "includeTemplates": true,
					"fields": []interface{}{Obj{"path": "spec/selector", "kind": "Service", "version": "v1", "create": true}}}
				if r.Intn(6) == 0 {
					// the own spec names metadata/labels for ONE kind: the labels still belong in every resource's metadata
					kv = map[string]string{"shadow": "s"}
					fieldsLabels[li] = kv
					shadowLayers[li] = true
					e = Obj{"pairs": toObj(kv), "fields": []interface{}{Obj{"path": "metadata/labels", "kind": "NoSuchKind", "create": true}}}
				}
				old, _ := L.Kust["labels"].([]interface{})
				L.Kust["labels"] = append([]interface{}{e}, old...)
				if len(old) == 0 && r.Intn(2) == 0 {
					// … followed by a plain, metadata-only entry in the same file
					if L.MetaLabels == nil {
						L.MetaLabels = map[string]string{"owner": pickS(r, []string{"a", "b"})}
						L.MetaLabelsTmpl = false
						L.Kust["labels"] = append(L.Kust["labels"].([]interface{}), Obj{"pairs": toObj(L.MetaLabels)})
					}
				}
			}
			fs := filesys.MakeFsInMemory()
			t.Write(fs, "/w")
			out, err, pnc := safeBuild(func() (string, error) { return runBuild(fs, t.TopDir("/w"), nil) })
			if pnc != nil || err != nil {
				o.note(errClass(err), cs)
				continue
			}
			o.note("ok", cs)
			docs, _ := parseDocs(out)
			bt := byTracer(docs)
			for _, g := range t.Res {
				if len(bt[g.ID]) != 1 {
					continue
				}
				d := bt[g.ID][0]
				// expected label directives of g's chain, innermost layer first; inside one layer the `labels` entries are
				// applied before commonLabels, so commonLabels wins on a shared key
				want := map[string]string{}     // keys written by commonLabels (metadata, selectors, templates)
				wantMeta := map[string]string{} // final metadata.labels entries from any label directive
				wantTmpl := map[string]string{} // final template entries
				for _, li := range t.Chain(g.Layer) {
					L := t.Layers[li]
					for k, v := range fieldsLabels[li] {
						wantMeta[k] = v
						if !shadowLayers[li] {
							wantTmpl[k] = v
						}
					}
					for k, v := range L.MetaLabels {
						wantMeta[k] = v
						if L.MetaLabelsTmpl {
							wantTmpl[k] = v
						}
					}
					for k, v := range L.Labels {
						want[k] = v
						wantMeta[k] = v
						wantTmpl[k] = v
					}
				}
				// annotations: the union of the chain's commonAnnotations (outer layers win) is on the metadata and, for workloads,
				// on the pod template (and the job template of a CronJob)
				wantAnn := map[string]string{}
				for _, li := range t.Chain(g.Layer) {
					for k, v := range t.Layers[li].Annos {
						wantAnn[k] = v
					}
				}
				if len(wantAnn) > 0 {
					ma := strMap(mustGet(d, "metadata", "annotations"))
					for k, v := range wantAnn {
						if ma[k] != v {
							o.fail("annotation-missing-in-metadata", fmt.Sprintf("%s %s: metadata annotation %s is %q, the directives give %q", g.Kind, g.Name, k, ma[k], v), cs, t.Describe(), ma, wantAnn)
						}
					}
					if tm := templateMetaPath(g.Kind); tm != nil && isWorkload(g.Kind) && !g.Gen {
						tv, _ := getPath(map[string]interface{}(d), ipath(tm, "annotations"))
						ta := strMap(tv)
						for k, v := range wantAnn {
							if ta[k] != v {
								o.fail("annotation-missing-in-template", fmt.Sprintf("%s %s: pod template annotation %s is %q, the directives give %q", g.Kind, g.Name, k, ta[k], v), cs, t.Describe(), ta, wantAnn)
							}
						}
					}
				}
				ml := strMap(mustGet(d, "metadata", "labels"))
				for k, v := range wantMeta {
					if ml[k] != v && k == "shadow" {
						// recogniser of finding C08-K1: FsSlice.MergeOne takes the incoming metadata/labels spec for "already there" when
						// the entry's own spec names metadata/labels for some kind, so the labels reach no other kind's metadata
						o.fail("own-spec-shadows-metadata-labels", fmt.Sprintf("%s %s: metadata label %s is %q, the entry gives %q", g.Kind, g.Name, k, ml[k], v), cs, t.Describe(), ml, wantMeta)
						continue
					}
					if ml[k] != v {
						o.fail("label-missing-in-metadata", fmt.Sprintf("%s %s: metadata label %s is %q, the directives give %q", g.Kind, g.Name, k, ml[k], v), cs, t.Describe(), ml, wantMeta)
					}
				}
				if isWorkload(g.Kind) && g.Kind != "Pod" {
					sel, hasSel := selectorOf(g.Kind, d)
					pl, _ := podLabelsOf(g.Kind, d)
					if hasSel && !subsetOf(sel, pl) {
						o.fail("selector-not-matching-own-template", fmt.Sprintf("%s %s selector %v does not match its own pod template labels %v", g.Kind, g.Name, sel, pl), cs, t.Describe(), sel, pl)
					}
					for k, v := range wantTmpl {
						if pl[k] != v {
							o.fail("label-missing-in-template", fmt.Sprintf("%s %s: pod template label %s is %q, the directives give %q", g.Kind, g.Name, k, pl[k], v), cs, t.Describe(), pl, wantTmpl)
						}
					}
					// the selector is its input plus the commonLabels keys: labels without includeSelectors never alter it
					inSel, _ := selectorOf(g.Kind, g.Obj)
					if hasSel {
						exp := map[string]string{}
						for k, v := range inSel {
							exp[k] = v
						}
						for k, v := range want {
							exp[k] = v
						}
						if !reflect.DeepEqual(exp, sel) {
							cls := "selector-differs-from-directives"
							for k := range wantMeta {
								if _, isCommon := want[k]; !isCommon || want[k] != sel[k] {
									if sel[k] == wantMeta[k] && sel[k] != exp[k] {
										cls = "plain-label-in-selector"
									}
								}
							}
							o.fail(cls, fmt.Sprintf("%s %s selector is %v, input plus commonLabels give %v", g.Kind, g.Name, sel, exp), cs, t.Describe(), sel, exp)
						}
					}
				}
			}
			// who-selects-whom is preserved for pairs under the same label directives (same layer)
			for _, s := range t.Res {
				selIn, ok := selectorOf(s.Kind, s.Obj)
				if !ok || isWorkload(s.Kind) || len(bt[s.ID]) != 1 {
					continue
				}
				for _, w := range t.Res {
					if !isWorkload(w.Kind) || w.Layer != s.Layer || w.NS != s.NS || len(bt[w.ID]) != 1 {
						continue
					}
					plIn, _ := podLabelsOf(w.Kind, w.Obj)
					if len(selIn) == 0 || !subsetOf(selIn, plIn) {
						continue
					}
					if w.Kind == "Pod" {
						// a bare Pod's labels ARE its metadata labels: a labels entry without includeSelectors that overrides a
						// commonLabels key changes them by request (self-inflicted); such chains are not compared
						over := false
						for _, li := range t.Chain(w.Layer) {
							for k := range t.Layers[li].MetaLabels {
								for _, lj := range t.Chain(w.Layer) {
									if _, both := t.Layers[lj].Labels[k]; both {
										over = true
									}
								}
							}
						}
						if over {
							continue
						}
					}
					selOut, _ := selectorOf(s.Kind, bt[s.ID][0])
					plOut, _ := podLabelsOf(w.Kind, bt[w.ID][0])
					if !subsetOf(selOut, plOut) {
						o.fail("selection-lost", fmt.Sprintf("%s %s selected the pods of %s %s before the build but not after (selector %v, pod labels %v)", s.Kind, s.Name, w.Kind, w.Name, selOut, plOut), cs, t.Describe(), selOut, plOut)
					}
				}
			}
		}
		return o.rep
	}
}

func mustGet(o Obj, path ...string) interface{} {
	v, _ := getPath(map[string]interface{}(o), ipath(path))
	return v
}
