package main

import (
	"bytes"
	"os"
	"fmt"
	"math/rand"
	"strings"

	"sigs.k8s.io/kustomize/api/resmap"
	"sigs.k8s.io/kustomize/kyaml/filesys"
	"sigs.k8s.io/kustomize/kyaml/kio"
	"sigs.k8s.io/kustomize/kyaml/yaml"
)

func init() {
	components["kio.split"] = func(r *rand.Rand, tier string) (map[string]interface{}, func() (interface{}, string)) {
		var sb strings.Builder
		nk := 0
		n := 2 + r.Intn(8)
		sb.WriteString("k0: v\n")
		nk++
		for i := 0; i < n; i++ {
			switch r.Intn(12) {
			case 0, 1, 2:
				sb.WriteString(fmt.Sprintf("k%d: v\n", nk))
				nk++
			case 3, 4:
				sb.WriteString("---\n")
			case 5:
				sb.WriteString("--- # comment\n")
			case 6:
				sb.WriteString("---   \n")
			case 7:
				sb.WriteString("# a comment\n")
			case 8:
				sb.WriteString("\n")
			case 9:
				if r.Intn(3) == 0 {
					// junk after the marker; always placed after a content line so that it is a separator candidate
					sb.WriteString(fmt.Sprintf("k%d: v\n---x\n", nk))
					nk++
				} else {
					sb.WriteString("---\r\n")
				}
			case 10:
				sb.WriteString(fmt.Sprintf("k%d: v\r\n", nk))
				nk++
			default:
				sb.WriteString("---\n---\n")
			}
		}
		if r.Intn(3) == 0 {
			sb.WriteString("---")
		}
		stream := sb.String()
		args := map[string]interface{}{"stream": stream}
		return args, func() (interface{}, string) {
			nodes, err := (&kio.ByteReader{Reader: strings.NewReader(stream), OmitReaderAnnotations: true}).Read()
			if err != nil {
				if strings.Contains(err.Error(), "invalid document separator") {
					return map[string]interface{}{"err": "separator"}, "err-separator"
				}
				return map[string]interface{}{"err": "yaml"}, "err-yaml"
			}
			keys := []interface{}{}
			for _, nd := range nodes {
				fs, _ := nd.Fields()
				if len(fs) > 0 {
					keys = append(keys, fs[0])
				} else {
					keys = append(keys, "?")
				}
			}
			return map[string]interface{}{"ok": keys}, fmt.Sprintf("docs-%d", min(len(keys), 5))
		}
	}
	components["kio.pkgpath"] = func(r *rand.Rand, tier string) (map[string]interface{}, func() (interface{}, string)) {
		var ps []string
		for i := 0; i < 1+r.Intn(4); i++ {
			ps = append(ps, pick(r, []string{"a", "b", "..", ".", "x.yaml", "", "a..b", "..x", "c"}))
		}
		path := strings.Join(ps, "/")
		if path == "" {
			path = "x.yaml" // an empty annotation means "no annotation": the writer then invents a default name
		}
		if r.Intn(6) == 0 {
			path = "/" + path
		}
		args := map[string]interface{}{"pkg": "/pkg/dir", "path": path}
		return args, func() (interface{}, string) {
			fs := filesys.MakeFsInMemory()
			fs.MkdirAll("/pkg/dir")
			fs.MkdirAll("/other")
			n := yaml.MustParse("apiVersion: v1\nkind: ConfigMap\nmetadata:\n  name: x\n")
			n.PipeE(yaml.SetAnnotation("config.kubernetes.io/path", path), yaml.SetAnnotation("config.kubernetes.io/index", "0"),
				yaml.SetAnnotation("internal.config.kubernetes.io/path", path), yaml.SetAnnotation("internal.config.kubernetes.io/index", "0"))
			err := kio.LocalPackageWriter{PackagePath: "/pkg/dir", FileSystem: filesys.FileSystemOrOnDisk{FileSystem: fs}}.Write([]*yaml.RNode{n})
			if err != nil {
				if strings.Contains(err.Error(), "may not be absolute") || strings.Contains(err.Error(), "must be written under package") {
					return map[string]interface{}{"err": "path"}, "rejected"
				}
				if strings.Contains(err.Error(), "cannot be a directory") {
					return map[string]interface{}{"err": "dir"}, "rejected-dir"
				}
				return map[string]interface{}{"err": "other:" + err.Error()}, "err-other"
			}
			// which file was written?
			written := ""
			fs.Walk("/", func(p string, info os.FileInfo, err error) error {
				if err == nil && !info.IsDir() {
					written = p
				}
				return nil
			})
			return map[string]interface{}{"ok": written}, "written"
		}
	}
}

// kio.emit: the stream `resWrangler.AsYaml` writes for a list of resources against the model `Kio.emit` applied to the
// resources' individual encodings (go-yaml's encoding of ONE document is the parameter), and the number of documents the
// reader then finds against the model's splitter on the model's stream.
func init() {
	components["kio.emit"] = func(r *rand.Rand, tier string) (map[string]interface{}, func() (interface{}, string)) {
		texts := []string{"plain", "two\nlines", "ends in one break\n", "keeps two breaks\n\n", "three\n\n\n", "\n\n", "a\n---\nb", "--- not a separator", "x\n--- y\n",
			"#not a comment", "tab\there", " lead", "trail \n", "012", ""}
		n := 1 + r.Intn(4)
		var docs []map[string]interface{}
		for i := 0; i < n; i++ {
			name := pick(r, []string{"a", "b", "c"}) + string(rune('0'+i))
			var d map[string]interface{}
			switch r.Intn(3) {
			case 0:
				d = map[string]interface{}{"apiVersion": "v1", "kind": "Secret", "metadata": map[string]interface{}{"name": name},
					"stringData": map[string]interface{}{"a": pick(r, texts), "note": pick(r, texts)}}
			case 1:
				d = map[string]interface{}{"apiVersion": "example.com/v1", "kind": "Thing", "metadata": map[string]interface{}{"name": name},
					"spec": map[string]interface{}{"n": 1, "zz": pick(r, texts)}}
			default:
				d = map[string]interface{}{"apiVersion": "v1", "kind": "ConfigMap", "metadata": map[string]interface{}{"name": name, "annotations": map[string]interface{}{"z": pick(r, texts)}},
					"data": map[string]interface{}{"k": pick(r, texts)}}
			}
			docs = append(docs, d)
		}
		// the individual encodings, by the real encoder
		m := resmap.New()
		var bodies []interface{}
		ok := true
		for _, d := range docs {
			res, err := rf().FromMap(d)
			if err != nil {
				ok = false
				break
			}
			b, err := res.AsYAML()
			if err != nil || !strings.HasSuffix(string(b), "\n") {
				ok = false
				break
			}
			bodies = append(bodies, strings.TrimSuffix(string(b), "\n"))
			if err := m.Append(res); err != nil {
				ok = false
				break
			}
		}
		args := map[string]interface{}{"bodies": bodies}
		return args, func() (interface{}, string) {
			if !ok {
				return map[string]interface{}{"err": "unmodelled"}, "skip"
			}
			out, err := m.AsYaml()
			if err != nil {
				return map[string]interface{}{"err": "other"}, "err"
			}
			nodes, err := (&kio.ByteReader{Reader: bytes.NewReader(out), OmitReaderAnnotations: true}).Read()
			if err != nil {
				return map[string]interface{}{"err": "reader:" + err.Error()}, "reader-err"
			}
			return map[string]interface{}{"ok": map[string]interface{}{"stream": string(out), "docs": len(nodes)}}, fmt.Sprintf("docs=%d", len(nodes))
		}
	}
}

// kio.read: the loop of ByteReader.Read on classified documents — which become resources, the reader index each is
// stamped with, when a List / ResourceList wrapper is replaced by its items — against Kust.KioRead.read.
func init() {
	components["kio.read"] = func(r *rand.Rand, tier string) (map[string]interface{}, func() (interface{}, string)) {
		n := 1 + r.Intn(4)
		if r.Intn(3) == 0 {
			n = 1
		}
		var parts []string
		var docs []interface{}
		for i := 0; i < n; i++ {
			switch r.Intn(7) {
			case 0:
				parts = append(parts, pick(r, []string{"# only a comment\n", "\n", "  \n# c\n"}))
				docs = append(docs, map[string]interface{}{"t": "blank"})
			case 1:
				parts = append(parts, pick(r, []string{"null\n", "~\n", "# c\nnull\n"}))
				docs = append(docs, map[string]interface{}{"t": "null"})
			case 2, 3:
				kind := pick(r, []string{"List", "ResourceList", "List", "ConfigMapList", "list"})
				api := "v1"
				if kind == "ResourceList" {
					api = "config.kubernetes.io/v1"
				}
				txt := fmt.Sprintf("apiVersion: %s\nkind: %s\n", api, kind)
				var items interface{}
				switch r.Intn(4) {
				case 0: // no items field
				case 1:
					txt += "items: []\n"
					items = 0
				default:
					k := 1 + r.Intn(3)
					txt += "items:\n"
					for j := 0; j < k; j++ {
						txt += fmt.Sprintf("- apiVersion: v1\n  kind: ConfigMap\n  metadata:\n    name: d%d-%d\n", i, j)
					}
					items = k
				}
				fc := r.Intn(5) == 0
				if fc {
					txt += "functionConfig:\n  a: b\n"
				}
				txt += fmt.Sprintf("metadata:\n  name: d%d\n", i)
				parts = append(parts, txt)
				docs = append(docs, map[string]interface{}{"t": "res", "kind": kind, "items": items, "fc": fc})
			default:
				kind := pick(r, []string{"ConfigMap", "Deployment", "Thing"})
				parts = append(parts, fmt.Sprintf("apiVersion: v1\nkind: %s\nmetadata:\n  name: d%d\n", kind, i))
				docs = append(docs, map[string]interface{}{"t": "res", "kind": kind, "items": nil, "fc": false})
			}
		}
		stream := strings.Join(parts, "---\n")
		disable := r.Intn(4) == 0
		args := map[string]interface{}{"docs": docs, "disable": disable, "stream": stream}
		return args, func() (interface{}, string) {
			rd := &kio.ByteReader{Reader: bytes.NewReader([]byte(stream)), DisableUnwrapping: disable}
			nodes, err := rd.Read()
			if err != nil {
				return map[string]interface{}{"err": "other:" + err.Error()}, "err"
			}
			out := []interface{}{}
			for _, nd := range nodes {
				name := nd.GetName()
				var d, j int
				if _, e := fmt.Sscanf(name, "d%d-%d", &d, &j); e == nil {
					out = append(out, []interface{}{"item", d, j})
					continue
				}
				fmt.Sscanf(name, "d%d", &d)
				idx := -1
				fmt.Sscanf(nd.GetAnnotations()["internal.config.kubernetes.io/index"], "%d", &idx)
				out = append(out, []interface{}{"doc", d, idx})
			}
			cl := fmt.Sprintf("n=%d-out=%d", n, len(nodes))
			return map[string]interface{}{"ok": out}, cl
		}
	}
}
