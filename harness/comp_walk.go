package main

import (
	"math/rand"
	"strings"

	"sigs.k8s.io/kustomize/kyaml/openapi"
	"sigs.k8s.io/kustomize/kyaml/yaml"
	"sigs.k8s.io/kustomize/kyaml/yaml/merge2"
	"sigs.k8s.io/kustomize/kyaml/yaml/merge3"
	"sigs.k8s.io/kustomize/kyaml/yaml/walk"
)

// ---- wire-level document builders -------------------------------------------------------------------

func wS(tag, v string) interface{}            { return []interface{}{"s", tag, v, 0} }
func wM(fs ...[]interface{}) interface{} {
	l := []interface{}{}
	for _, f := range fs {
		l = append(l, []interface{}{f[0], f[1]})
	}
	return []interface{}{"m", 0, l}
}
func wF(k string, v interface{}) []interface{} { return []interface{}{k, v} }
func wQ(is ...interface{}) interface{} {
	l := []interface{}{}
	l = append(l, is...)
	return []interface{}{"q", 0, l}
}

func wStr(r *rand.Rand) interface{} {
	v := pick(r, []string{"x", "y", "z", "1", "app", "a b", ""})
	st := 0
	if v == "1" || v == "" {
		st = int(yaml.DoubleQuotedStyle)
	} else if r.Intn(5) == 0 {
		st = int(yaml.DoubleQuotedStyle)
	}
	return []interface{}{"s", "!!str", v, st}
}

func wScalar(r *rand.Rand) interface{} {
	switch r.Intn(5) {
	case 0:
		return wS("!!int", pick(r, []string{"1", "2", "3"}))
	case 1:
		return wS("!!bool", pick(r, []string{"true", "false"}))
	default:
		return wStr(r)
	}
}

func genContainer(r *rand.Rand, name string) interface{} {
	fs := [][]interface{}{wF("name", wS("!!str", name))}
	if r.Intn(2) == 0 {
		fs = append(fs, wF("image", wS("!!str", pick(r, []string{"nginx", "nginx:1", "busybox"}))))
	}
	if r.Intn(2) == 0 {
		var env []interface{}
		for _, n := range []string{"A", "B", "C"} {
			if r.Intn(2) == 0 {
				env = append(env, wM(wF("name", wS("!!str", n)), wF("value", wStr(r))))
			}
		}
		fs = append(fs, wF("env", wQ(env...)))
	}
	if r.Intn(3) == 0 {
		var a []interface{}
		for i := 0; i < r.Intn(3); i++ {
			a = append(a, wStr(r))
		}
		fs = append(fs, wF("args", wQ(a...)))
	}
	if r.Intn(3) == 0 {
		// ports: a list with TWO merge keys (containerPort, protocol); the secondary key is usually left out
		var ps []interface{}
		withProto := r.Intn(4) == 0
		for _, n := range []string{"80", "443", "8080"} {
			if r.Intn(2) == 0 {
				pf := [][]interface{}{wF("containerPort", wS("!!int", n))}
				if withProto {
					pf = append(pf, wF("protocol", wS("!!str", "TCP")))
				}
				if r.Intn(3) == 0 {
					pf = append(pf, wF("name", wS("!!str", "p"+n)))
				}
				ps = append(ps, wM(pf...))
			}
		}
		fs = append(fs, wF("ports", wQ(ps...)))
	}
	r.Shuffle(len(fs), func(i, j int) { fs[i], fs[j] = fs[j], fs[i] })
	return wM(fs...)
}

// genObject: a Deployment-shaped object of a schema'd or schema-less kind.
func genObject(r *rand.Rand, kind, apiv string) interface{} {
	meta := [][]interface{}{wF("name", wS("!!str", "obj"))}
	if r.Intn(2) == 0 {
		meta = append(meta, wF("labels", wM(wF("app", wStr(r)), wF("tier", wStr(r)))))
	}
	if r.Intn(3) == 0 {
		meta = append(meta, wF("finalizers", wQ(wS("!!str", "f1"), wS("!!str", "f2"))))
	}
	if r.Intn(4) == 0 {
		meta = append(meta, wF("annotations", wM(wF("note", wStr(r)))))
	}
	var conts []interface{}
	for _, n := range []string{"c1", "c2", "c3"} {
		if r.Intn(3) != 0 {
			conts = append(conts, genContainer(r, n))
		}
	}
	pod := [][]interface{}{wF("containers", wQ(conts...))}
	if r.Intn(2) == 0 {
		pod = append(pod, wF("volumes", wQ(wM(wF("name", wS("!!str", "v1")), wF("emptyDir", wM())), wM(wF("name", wS("!!str", "v2")), wF("configMap", wM(wF("name", wS("!!str", "cm"))))))))
	}
	if r.Intn(3) == 0 {
		pod = append(pod, wF("nodeSelector", wM(wF("disk", wStr(r)))))
	}
	spec := [][]interface{}{wF("template", wM(wF("spec", wM(pod...))))}
	if r.Intn(2) == 0 {
		// a label selector: a map like any other for the merge (its schema marks it `x-kubernetes-map-type: atomic`, which is a
		// server-side-apply notion)
		spec = append(spec, wF("selector", wM(wF("matchLabels", wM(wF("app", wStr(r)), wF("tier", wStr(r)))))))
	}
	if r.Intn(2) == 0 {
		spec = append(spec, wF("replicas", wS("!!int", pick(r, []string{"1", "2"}))))
	}
	if r.Intn(4) == 0 {
		spec = append(spec, wF("paused", wS("!!null", "null")))
	}
	return wM(wF("apiVersion", wS("!!str", apiv)), wF("kind", wS("!!str", kind)), wF("metadata", wM(meta...)), wF("spec", wM(spec...)))
}

// mutateTo derives a patch / a changed version: random edits over the object.
// mode "patch": result contains only the touched paths (plus identity); mode "edit": full edited copy.
func deepCopyW(w interface{}) interface{} {
	switch v := w.(type) {
	case []interface{}:
		o := make([]interface{}, len(v))
		for i := range v {
			o[i] = deepCopyW(v[i])
		}
		return o
	}
	return w
}

func wFields(w interface{}) []interface{} {
	a, ok := w.([]interface{})
	if !ok || a[0] != "m" {
		return nil
	}
	return a[2].([]interface{})
}

func wGet(w interface{}, k string) interface{} {
	for _, f := range wFields(w) {
		if f.([]interface{})[0] == k {
			return f.([]interface{})[1]
		}
	}
	return nil
}

func wSet(w interface{}, k string, v interface{}) {
	a := w.([]interface{})
	fs := a[2].([]interface{})
	for _, f := range fs {
		if f.([]interface{})[0] == k {
			f.([]interface{})[1] = v
			return
		}
	}
	a[2] = append(fs, []interface{}{k, v})
}

func wDel(w interface{}, k string) {
	a := w.([]interface{})
	var nf []interface{}
	for _, f := range a[2].([]interface{}) {
		if f.([]interface{})[0] != k {
			nf = append(nf, f)
		}
	}
	if nf == nil {
		nf = []interface{}{}
	}
	a[2] = nf
}

// editObject applies random edits in place (used for merge3 triples and as the basis of patches).
func editObject(r *rand.Rand, w interface{}, depth int, allowDirectives bool) {
	a, ok := w.([]interface{})
	if !ok {
		return
	}
	switch a[0] {
	case "m":
		fs := a[2].([]interface{})
		for _, f := range fs {
			ff := f.([]interface{})
			k := ff[0].(string)
			if k == "apiVersion" || k == "kind" || (k == "name" && depth <= 2) {
				continue
			}
			switch r.Intn(9) {
			case 0:
				if c, ok := ff[1].([]interface{}); ok && c[0] == "s" {
					ff[1] = wScalar(r)
				}
			case 1:
				if depth > 0 {
					wDel(w, k)
				}
			case 2:
				if allowDirectives && depth > 0 {
					ff[1] = wS("!!null", "null")
				}
			default:
				editObject(r, ff[1], depth+1, allowDirectives)
			}
		}
		if r.Intn(4) == 0 && depth > 0 {
			wSet(w, pick(r, []string{"added", "extra", "zz"}), wScalar(r))
		}
		if allowDirectives && depth > 1 && r.Intn(10) == 0 {
			wSet(w, "$patch", wS("!!str", pick(r, []string{"delete", "replace", "merge"})))
		}
	case "q":
		is := a[2].([]interface{})
		var out []interface{}
		for _, e := range is {
			switch r.Intn(6) {
			case 0: // drop
				continue
			case 1:
				if allowDirectives {
					if m, ok := e.([]interface{}); ok && m[0] == "m" {
						if cp := wGet(e, "containerPort"); cp != nil {
							df := [][]interface{}{wF("containerPort", cp)}
							if pr := wGet(e, "protocol"); pr != nil {
								df = append(df, wF("protocol", pr))
							}
							out = append(out, wM(append(df, wF("$patch", wS("!!str", "delete")))...))
							continue
						}
						if nm := wGet(e, "name"); nm != nil {
							out = append(out, wM(wF("name", nm), wF("$patch", wS("!!str", "delete"))))
							continue
						}
					}
				}
				out = append(out, e)
			default:
				editObject(r, e, depth+1, allowDirectives)
				out = append(out, e)
			}
		}
		if r.Intn(3) == 0 {
			if len(is) > 0 {
				if m, ok := is[0].([]interface{}); ok && m[0] == "m" && wGet(is[0], "name") != nil {
					out = append(out, genContainer(r, pick(r, []string{"new", "c9"})))
				} else if ok && m[0] == "s" {
					out = append(out, wStr(r))
				}
			}
		}
		if allowDirectives && r.Intn(12) == 0 {
			out = append(out, wM(wF("$patch", wS("!!str", pick(r, []string{"replace", "delete", "merge"})))))
		}
		if out == nil {
			out = []interface{}{}
		}
		r.Shuffle(len(out), func(i, j int) { out[i], out[j] = out[j], out[i] })
		a[2] = out
	}
}

// schemaGraph: for every sequence-valued path of the documents, the (strategy, keys) the real openapi package
// gives for the object's type ("" / [] when the schema has none; path absent when there is no schema).
func schemaGraph(kind, apiv string, docs ...interface{}) []interface{} {
	root := openapi.SchemaForResourceType(yaml.TypeMeta{Kind: kind, APIVersion: apiv})
	seen := map[string]bool{}
	out := []interface{}{}
	var visit func(w interface{}, s *openapi.ResourceSchema, path []string)
	visit = func(w interface{}, s *openapi.ResourceSchema, path []string) {
		a, ok := w.([]interface{})
		if !ok || s == nil {
			return
		}
		switch a[0] {
		case "m":
			for _, f := range a[2].([]interface{}) {
				ff := f.([]interface{})
				visit(ff[1], s.Field(ff[0].(string)), append(append([]string{}, path...), ff[0].(string)))
			}
		case "q":
			key := strings.Join(path, "\x00")
			if !seen[key] {
				seen[key] = true
				strat, keys := s.PatchStrategyAndKeyList()
				ks := []interface{}{}
				for _, k := range keys {
					ks = append(ks, k)
				}
				ps := []interface{}{}
				for _, p := range path {
					ps = append(ps, p)
				}
				out = append(out, []interface{}{ps, strat, ks})
			}
			for _, e := range a[2].([]interface{}) {
				visit(e, s.Elements(), path)
			}
		}
	}
	for _, d := range docs {
		visit(d, root, nil)
	}
	return out
}

func optRNode(w interface{}) *yaml.RNode {
	if w == nil {
		return nil
	}
	return yaml.NewRNode(wireToNode(w))
}

func walkResult(rn *yaml.RNode, err error) interface{} {
	if err != nil {
		c := "other"
		if classifyKyamlErr(err) == "kind" {
			c = "kind"
		} else if strings.Contains(err.Error(), "unknown patch strategy") || strings.Contains(err.Error(), "no implemented strategic merge") {
			c = "directive"
		} else if strings.Contains(err.Error(), "no merge key found") {
			c = "nokey"
		} else if strings.Contains(err.Error(), "conflicting merge keys") {
			c = "conflictkeys"
		}
		return map[string]interface{}{"err": c}
	}
	return map[string]interface{}{"ok": rnodeToWire(rn)}
}

func init() {
	components["walk.merge2"] = func(r *rand.Rand, tier string) (map[string]interface{}, func() (interface{}, string)) {
		kinds := [][2]string{{"Deployment", "apps/v1"}, {"Deployment", "apps/v1"}, {"MyKind", "example.com/v1"}, {"StatefulSet", "apps/v1"}}
		ka := kinds[r.Intn(len(kinds))]
		target := genObject(r, ka[0], ka[1])
		patch := deepCopyW(target)
		editObject(r, patch, 0, true)
		// a patch usually mentions only part of the object: drop untouched top-level branches at random
		for _, k := range []string{"metadata", "spec"} {
			if r.Intn(4) == 0 {
				wDel(patch, k)
			}
		}
		prepend := r.Intn(4) != 0
		infer := ka[0] == "MyKind" && r.Intn(3) == 0
		sg := schemaGraph(ka[0], ka[1], target, patch)
		// multi-key merge lists are outside the model; the generated shapes have none
		args := map[string]interface{}{"dest": target, "patch": patch, "schema": sg, "infer": infer, "prepend": prepend, "ns": nsGraph(target, patch)}
		return args, func() (interface{}, string) {
			opts := yaml.MergeOptions{ListIncreaseDirection: yaml.MergeOptionsListAppend}
			if prepend {
				opts.ListIncreaseDirection = yaml.MergeOptionsListPrepend
			}
			res, err := walk.Walker{Sources: []*yaml.RNode{optRNode(target), optRNode(patch)}, Visitor: merge2.Merger{},
				InferAssociativeLists: infer, MergeOptions: opts}.Walk()
			cls := ka[0]
			if err != nil {
				cls = "err"
			}
			return walkResult(res, err), cls
		}
	}
	components["walk.merge3"] = func(r *rand.Rand, tier string) (map[string]interface{}, func() (interface{}, string)) {
		orig := genObject(r, "MyKind", "example.com/v1")
		local, upd := deepCopyW(orig), deepCopyW(orig)
		mode := r.Intn(5)
		if mode != 0 {
			editObject(r, local, 0, false)
		}
		if mode != 1 {
			editObject(r, upd, 0, false)
		}
		infer := r.Intn(2) == 0
		var d, o, u interface{} = local, orig, upd
		switch r.Intn(12) {
		case 0:
			d = nil
		case 1:
			u = nil
		case 2:
			o = nil
		}
		args := map[string]interface{}{"dest": d, "orig": o, "upd": u, "infer": infer, "ns": nsGraph(d, o, u)}
		return args, func() (interface{}, string) {
			res, err := walk.Walker{Visitor: merge3.Visitor{}, VisitKeysAsScalars: true, InferAssociativeLists: infer,
				Sources: []*yaml.RNode{optRNode(d), optRNode(o), optRNode(u)}}.Walk()
			cls := []string{"u-only", "l-only", "both", "both", "both"}[mode]
			if err != nil {
				cls = "err"
			}
			return walkResult(res, err), cls
		}
	}
}
