package main

import (
	"encoding/json"
	"math/rand"
	"sort"

	"sigs.k8s.io/kustomize/api/krusty"
	"sigs.k8s.io/kustomize/kyaml/filesys"
)

// crd.config: the transformer configuration derived from a CRD definitions file — types that refer to themselves, to each
// other, to types that do not exist — through the verif-tagged hook krusty.VerifCrdConfig, against Kust.CrdConfig.config.
// A build that does not return within the harness time limit is a disagreement (the model always returns).
func init() {
	components["crd.config"] = func(r *rand.Rand, tier string) (map[string]interface{}, func() (interface{}, string)) {
		pool := []string{"example.com/v1.Tree", "example.com/v1.Node", "example.com/v1.Leaf", "other.io/v2.Tree", "Plain"}
		r.Shuffle(len(pool), func(i, j int) { pool[i], pool[j] = pool[j], pool[i] })
		names := pool[:1+r.Intn(len(pool))]
		var types []interface{}
		doc := map[string]interface{}{}
		for _, n := range names {
			var props []interface{}
			jp := map[string]interface{}{}
			if r.Intn(3) != 0 {
				for _, k := range []string{"kind", "apiVersion", "metadata"} {
					if r.Intn(12) == 0 {
						continue // not quite a k8s type
					}
					props = append(props, map[string]interface{}{"name": k, "anno": false, "label": false, "ident": false, "objref": nil, "ref": nil})
					jp[k] = map[string]interface{}{"type": "string"}
				}
			}
			used := map[string]bool{}
			for i := 0; i < r.Intn(4); i++ {
				pn := pick(r, []string{"spec", "child", "ref", "cm", "items", "next"})
				if used[pn] {
					continue
				}
				used[pn] = true
				p := map[string]interface{}{"name": pn, "anno": r.Intn(3) == 0, "label": r.Intn(5) == 0, "ident": r.Intn(5) == 0, "objref": nil, "ref": nil}
				j := map[string]interface{}{}
				if p["anno"].(bool) {
					j["x-kubernetes-annotation"] = ""
				}
				if p["label"].(bool) {
					j["x-kubernetes-label-selector"] = ""
				}
				if p["ident"].(bool) {
					j["x-kubernetes-identity"] = ""
				}
				switch r.Intn(5) {
				case 0:
					or := map[string]interface{}{"version": "v1", "kind": pick(r, []string{"ConfigMap", "Secret"}), "nameKey": nil}
					j["x-kubernetes-object-ref-api-version"], j["x-kubernetes-object-ref-kind"] = "v1", or["kind"]
					if r.Intn(2) == 0 {
						or["nameKey"] = "key"
						j["x-kubernetes-object-ref-name-key"] = "key"
					}
					p["objref"] = or
				case 1:
					j["x-kubernetes-object-ref-api-version"] = "v1" // a version without a kind: no reference
				}
				if r.Intn(3) != 0 {
					ref := pick(r, append(append([]string{}, names...), "example.com/v1.Missing", n, n))
					p["ref"] = ref
					j["$ref"] = ref
				} else {
					j["type"] = "string"
				}
				props = append(props, p)
				jp[pn] = j
			}
			if props == nil {
				props = []interface{}{}
			}
			types = append(types, map[string]interface{}{"name": n, "props": props})
			doc[n] = map[string]interface{}{"Schema": map[string]interface{}{"properties": jp}}
		}
		b, _ := json.Marshal(doc)
		args := map[string]interface{}{"types": types, "json": string(b)}
		return args, func() (interface{}, string) {
			fs := filesys.MakeFsInMemory()
			fs.MkdirAll("/w")
			fs.WriteFile("/w/crd.json", b)
			lines, err := krusty.VerifCrdConfig(fs, "/w", []string{"crd.json"})
			if err != nil {
				return map[string]interface{}{"err": "other:" + err.Error()}, "err"
			}
			if lines == nil {
				lines = []string{}
			}
			sort.Strings(lines)
			cl := "empty"
			if len(lines) > 0 {
				cl = "specs"
			}
			return map[string]interface{}{"ok": lines}, cl
		}
	}
}
