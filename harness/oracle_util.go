package main

import (
	"crypto/sha1"
	"fmt"
	"math/rand"
	"os"
	"regexp"
	"strconv"
	"strings"
)

type oracleRun struct {
	rep  *oracleReport
	seen map[[20]byte]bool
}

func newOracleRun(prop string, seed int64) *oracleRun {
	return &oracleRun{rep: &oracleReport{Prop: prop, Seed: seed, Classes: map[string]int{}}, seen: map[[20]byte]bool{}}
}

func (o *oracleRun) note(class string, input interface{}) {
	o.rep.Cases++
	o.rep.Classes[class]++
	h := sha1.Sum([]byte(jstr(input)))
	if !o.seen[h] {
		o.seen[h] = true
		o.rep.Distinct++
	}
	if len(o.rep.Samples) < 3 && o.rep.Cases%7 == 3 {
		o.rep.Samples = append(o.rep.Samples, input)
	}
}

func (o *oracleRun) fail(class, what string, seed int64, input, got, want interface{}) {
	o.rep.Classes["FAIL:"+class]++
	if o.rep.Classes["FAIL:"+class] <= 3 && len(o.rep.Failures) < 80 {
		o.rep.Failures = append(o.rep.Failures, failure{Class: class, What: what, Seed: seed, Input: input, Got: got, Want: want})
	}
}

func caseSeeds(seed int64, n int, prop string) []int64 {
	// replay of one case of a report: VERIF_ONLY_CASE=<case seed from the replay file>
	if v := os.Getenv("VERIF_ONLY_CASE"); v != "" {
		if cs, err := strconv.ParseInt(v, 10, 64); err == nil {
			return []int64{cs}
		}
	}
	master := rand.New(rand.NewSource(seed*7919 + hashStr(prop)))
	out := make([]int64, n)
	for i := range out {
		out[i] = master.Int63()
	}
	return out
}

var reNum = regexp.MustCompile(`[0-9]+`)
var rePtr = regexp.MustCompile(`0x[0-9a-f]+`)

// errClass maps an error message to a coarse class for the distribution report.
func errClass(err error) string {
	if err == nil {
		return "ok"
	}
	m := err.Error()
	// keep the innermost cause: the accumulation prefixes repeat per layer
	if i := strings.LastIndex(m, "': "); i >= 0 && i+3 < len(m) {
		m = m[i+3:]
	}
	if i := strings.Index(m, "\n"); i >= 0 {
		m = m[:i]
	}
	m = rePtr.ReplaceAllString(m, "PTR")
	m = reNum.ReplaceAllString(m, "N")
	if len(m) > 70 {
		m = m[:70]
	}
	return "err:" + m
}

func safeBuild(f func() (string, error)) (out string, err error, panicked interface{}) {
	defer func() {
		if p := recover(); p != nil {
			panicked = p
			err = fmt.Errorf("PANIC: %v", p)
		}
	}()
	out, err = f()
	return
}
