package main

import (
	"math/rand"

	"sigs.k8s.io/kustomize/api/filters/imagetag"
	util "sigs.k8s.io/kustomize/api/pkg/util"
	"sigs.k8s.io/kustomize/api/types"
	"sigs.k8s.io/kustomize/kyaml/yaml"
)

var imgNames = []string{"nginx", "mynginx", "nginx2", "registry:5000/nginx", "x.y/app", "x.y", "xzy", "a(", "a+b", "nginx.io/x", "lib/nginx", "busybox", "n{x}", "*"}
var imgTags = []string{"", ":1.0", ":latest", ":v1_2-3", ":{tag}", ":bad tag", ":"}
var imgDigests = []string{"", "@sha256:abcd", "@sha256:", "@md5:abcd", "@sha256:ab cd"}

func genImageRef(r *rand.Rand) string {
	return pick(r, imgNames) + pick(r, imgTags) + pick(r, imgDigests)
}

func init() {
	components["image.update"] = func(r *rand.Rand, tier string) (map[string]interface{}, func() (interface{}, string)) {
		img := genImageRef(r)
		name := pick(r, imgNames)
		if r.Intn(2) == 0 { // make matches frequent
			n, _, _ := util.SplitImageName(img)
			name = n
		}
		e := types.Image{Name: name}
		switch r.Intn(6) {
		case 0:
			e.NewTag = "9.9"
		case 1:
			e.NewName = "other/repo"
		case 2:
			e.Digest = "sha256:ffff"
		case 3:
			e.NewName, e.NewTag = "o", "t"
		case 4:
			e.NewTag, e.Digest = "t", "sha256:d"
		default:
			e.TagSuffix = "-sfx"
		}
		args := map[string]interface{}{"image": img, "name": e.Name, "newName": e.NewName, "newTag": e.NewTag, "digest": e.Digest, "tagSuffix": e.TagSuffix}
		return args, func() (interface{}, string) {
			n := yaml.NewRNode(&yaml.Node{Kind: yaml.MappingNode, Content: []*yaml.Node{
				{Kind: yaml.ScalarNode, Tag: "!!str", Value: "image"}, {Kind: yaml.ScalarNode, Tag: "!!str", Value: img}}})
			_, err := imagetag.Filter{ImageTag: e, FsSlice: types.FsSlice{{Path: "image"}}}.Filter([]*yaml.RNode{n})
			if err != nil {
				return map[string]interface{}{"err": "filter"}, "err"
			}
			out := n.YNode().Content[1].Value
			cls := "unchanged"
			if out != img {
				cls = "rewritten"
			}
			return map[string]interface{}{"ok": out}, cls
		}
	}
	components["image.split"] = func(r *rand.Rand, tier string) (map[string]interface{}, func() (interface{}, string)) {
		img := genImageRef(r)
		args := map[string]interface{}{"image": img}
		return args, func() (interface{}, string) {
			n, t, d := util.SplitImageName(img)
			return map[string]interface{}{"ok": []interface{}{n, t, d}}, "ok"
		}
	}
}
