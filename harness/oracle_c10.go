package main

import (
	"fmt"
	"math/rand"
	"regexp"
	"strings"

	"sigs.k8s.io/kustomize/kyaml/filesys"
	"sigs.k8s.io/yaml"
)

// independent image-reference splitter: [[host[:port]/]component/]component[:tag][@digest]
func splitImageRef(s string) (name, tag, digest string) {
	rest := s
	if i := strings.Index(rest, "@"); i >= 0 {
		digest = rest[i+1:]
		rest = rest[:i]
	}
	lastSlash := strings.LastIndex(rest, "/")
	if i := strings.LastIndex(rest, ":"); i > lastSlash {
		tag = rest[i+1:]
		rest = rest[:i]
	}
	return rest, tag, digest
}

var c10Names = []string{"app", "app-1", "myapp", "app2", "xapp", "a.p", "axp", "web"}
var c10Images = []string{"nginx", "nginx:1.0", "mynginx", "nginx2:1", "registry:5000/nginx", "registry:5000/nginx:3", "nginx@sha256:abcd",
	"nginx:1.0@sha256:abcd", "x.y/app:1", "xzy/app:1", "x.y", "xzy", "busybox"}

func init() {
	oracles["C10"] = func(seed int64, n int, tier, work string) *oracleReport {
		o := newOracleRun("C10", seed)
		for _, cs := range caseSeeds(seed, n, "C10") {
			r := rand.New(rand.NewSource(cs))
			// ---- resources
			type res struct {
				kind, name, ns string
				labels         map[string]string
				image          string
				obj            Obj
			}
			var rs []*res
			used := map[string]bool{}
			nres := 3 + r.Intn(4)
			for i := 0; i < nres; i++ {
				kind := pickS(r, []string{"Deployment", "Deployment", "StatefulSet", "ConfigMap", "MyKind"})
				name := pickS(r, c10Names)
				if used[kind+name] {
					continue
				}
				used[kind+name] = true
				x := &res{kind: kind, name: name, labels: map[string]string{}}
				if r.Intn(2) == 0 {
					x.labels["tier"] = pickS(r, []string{"fe", "be", "fe2"})
				}
				md := Obj{"name": name, "annotations": Obj{tracerKey: fmt.Sprintf("t%d", i)}}
				if r.Intn(5) == 0 {
					x.ns = pickS(r, []string{"old", "prod", "default"})
					md["namespace"] = x.ns
				}
				if len(x.labels) > 0 {
					md["labels"] = toObj(x.labels)
				}
				ob := Obj{"apiVersion": apiVersionOf(kind), "kind": kind, "metadata": md}
				switch kind {
				case "Deployment", "StatefulSet":
					x.image = pickS(r, c10Images)
					ob["spec"] = Obj{"replicas": float64(1), "template": Obj{"spec": Obj{"containers": []interface{}{Obj{"name": "main", "image": x.image}, Obj{"name": "side", "image": "busybox"}, Obj{"name": "xmain2", "image": "busybox:2"}}}}}
				case "ConfigMap":
					ob["data"] = Obj{"k": "v"}
				case "MyKind":
					ob["spec"] = Obj{"replicas": float64(1), "image": "nginx"}
				}
				x.obj = ob
				rs = append(rs, x)
			}
			if len(rs) == 0 {
				continue
			}
			var sb strings.Builder
			sb.WriteString("apiVersion: v1\nkind: Secret\nmetadata:\n  name: src\nstringData:\n  v: COPIED\n---\n")
			for i, x := range rs {
				if i > 0 {
					sb.WriteString("---\n")
				}
				b, _ := yaml.Marshal(x.obj)
				sb.Write(b)
			}
			k := Obj{"resources": []interface{}{"res.yaml"}}
			mode := r.Intn(4)
			layerPrefix, layerNs := "", ""
			var predict func(x *res, out Obj) (string, bool) // returns a description of the violation
			var desc interface{}
			switch mode {
			case 0: // ---- patch with target selector
				pat := pickS(r, []string{"app", "app.*", "app|web", "a.p", ".*app", "app-1", "app[0-9]", "web"})
				tgt := Obj{"name": pat}
				kindSel := ""
				if r.Intn(2) == 0 {
					kindSel = pickS(r, []string{"Deployment", "ConfigMap", "Deploy", "Deployment|StatefulSet"})
					tgt["kind"] = kindSel
				}
				lsel := ""
				if r.Intn(3) == 0 {
					lsel = "tier=" + pickS(r, []string{"fe", "be"})
					tgt["labelSelector"] = lsel
				}
				// a lower layer may have renamed and moved the resources: the selector's name pattern then matches the ORIGINAL
				// or the CURRENT name, its namespace pattern the ORIGINAL or the CURRENT namespace — independently of each other
				if r.Intn(2) == 0 {
					if r.Intn(3) != 0 {
						layerPrefix = pickS(r, []string{"pre-", "x", "my"})
					}
					if r.Intn(3) != 0 {
						layerNs = pickS(r, []string{"prod", "old", "stage"})
					}
					if r.Intn(2) == 0 {
						pat = pickS(r, []string{"pre-app", "xapp", "myapp", "pre-.*", "app", "web", "x.*", "pre-web"})
						tgt["name"] = pat
					}
				}
				nsSel := ""
				if r.Intn(3) == 0 {
					nsSel = pickS(r, []string{"prod", "old", "default", "stage", "pr.*", "pro"})
					tgt["namespace"] = nsSel
				} else if layerNs != "" && r.Intn(2) == 0 {
					// the CURRENT namespace beside (often) the ORIGINAL name, or the other way round
					nsSel = pickS(r, []string{layerNs, layerNs, "default"})
					tgt["namespace"] = nsSel
				}
				k["patches"] = []interface{}{Obj{"target": tgt, "patch": "- op: add\n  path: /metadata/annotations/hit\n  value: \"1\"\n"}}
				desc = map[string]interface{}{"mode": "patch-target", "target": tgt, "layerPrefix": layerPrefix, "layerNamespace": layerNs}
				nameRe := regexp.MustCompile("^(?:" + pat + ")$")
				var nsRe *regexp.Regexp
				if nsSel != "" {
					nsRe = regexp.MustCompile("^(?:" + nsSel + ")$")
				}
				eff := func(ns string) string {
					if ns == "" {
						return "default"
					}
					return ns
				}
				var kindRe *regexp.Regexp
				if kindSel != "" {
					kindRe = regexp.MustCompile("^(?:" + kindSel + ")$")
				}
				predict = func(x *res, out Obj) (string, bool) {
					curNs := x.ns
					if layerNs != "" {
						curNs = layerNs
					}
					want := (nameRe.MatchString(x.name) || nameRe.MatchString(layerPrefix+x.name)) && (kindRe == nil || kindRe.MatchString(x.kind)) &&
						(nsRe == nil || nsRe.MatchString(eff(x.ns)) || nsRe.MatchString(eff(curNs)))
					if lsel != "" {
						kv := strings.SplitN(lsel, "=", 2)
						want = want && x.labels[kv[0]] == kv[1]
					}
					_, got := getPath(map[string]interface{}(out), ipath(nil, "metadata", "annotations", "hit"))
					if got != want {
						return fmt.Sprintf("selector %v: %s %s patched=%v, full-match semantics prescribes %v", tgt, x.kind, x.name, got, want), false
					}
					return "", true
				}
			case 1: // ---- images
				nm := pickS(r, []string{"nginx", "registry:5000/nginx", "x.y/app", "x.y", "nginx2", "mynginx"})
				e := Obj{"name": nm}
				newName, newTag, digest := "", "", ""
				switch r.Intn(4) {
				case 0:
					newTag = "9.9"
				case 1:
					newName = "other/repo"
				case 2:
					digest = "sha256:ffff"
				default:
					newName, newTag = "other/repo", "9.9"
				}
				if newName != "" {
					e["newName"] = newName
				}
				if newTag != "" {
					e["newTag"] = newTag
				}
				if digest != "" {
					e["digest"] = digest
				}
				k["images"] = []interface{}{e}
				desc = map[string]interface{}{"mode": "images", "entry": e}
				predict = func(x *res, out Obj) (string, bool) {
					if x.image == "" {
						return "", true
					}
					v, _ := getPath(map[string]interface{}(out), ipath(nil, "spec", "template", "spec", "containers", sel{"name", "main"}, "image"))
					name, tag, dg := splitImageRef(x.image)
					want := x.image
					if name == nm {
						if newName != "" {
							name = newName
						}
						switch {
						case newTag != "" && digest != "":
							tag, dg = newTag, digest
						case newTag != "":
							tag, dg = newTag, ""
						case digest != "":
							tag, dg = "", digest
						}
						want = name
						if tag != "" {
							want += ":" + tag
						}
						if dg != "" {
							want += "@" + dg
						}
					}
					if v != want {
						cls := "image-rewrite-wrong"
						_ = cls
						return fmt.Sprintf("images entry %v: container image %q became %v, exact-name semantics prescribes %q", e, x.image, v, want), false
					}
					return "", true
				}
			case 3: // ---- replacement: copy a source value into the field of exactly the selected list element
				selName := pick(r, []string{"main", "side", "mai"})
				k["replacements"] = []interface{}{Obj{
					"source": Obj{"kind": "Secret", "name": "src", "fieldPath": "stringData.v"},
					"targets": []interface{}{Obj{"select": Obj{"kind": "Deployment"},
						"fieldPaths": []interface{}{"spec.template.spec.containers.[name=" + selName + "].image"}}}}}
				desc = map[string]interface{}{"mode": "replacement", "element": selName}
				// a lower layer may have renamed / moved the targets (they then have several ids a select can match)
				if r.Intn(2) == 0 {
					if r.Intn(3) != 0 {
						layerPrefix = pickS(r, []string{"pre-", "x"})
					}
					if r.Intn(3) != 0 {
						layerNs = pickS(r, []string{"prod", "stage"})
					}
				}
				insertAt := 0
				if r.Intn(2) == 0 {
					// … and a second target that INSERTS instead of overwriting: a delimiter with an index before the first or past
					// the last piece — the value arrives exactly once
					insertAt = []int{-1, 99}[r.Intn(2)]
					tl := k["replacements"].([]interface{})[0].(Obj)["targets"].([]interface{})
					k["replacements"].([]interface{})[0].(Obj)["targets"] = append(tl, Obj{"select": Obj{"kind": "ConfigMap"},
						"fieldPaths": []interface{}{"data.k"}, "options": Obj{"delimiter": ",", "index": float64(insertAt)}})
					desc.(map[string]interface{})["insertIndex"] = insertAt
				}
				rejNs := ""
				if r.Intn(2) == 0 {
					// a reject entry that names a NAMESPACE only (`default` included: the absent namespace is the default one): a
					// resource any of whose ids — original or current — is in it is left alone
					rejNs = pickS(r, []string{"default", "default", "prod", "stage", "old"})
					k["replacements"].([]interface{})[0].(Obj)["targets"].([]interface{})[0].(Obj)["reject"] = []interface{}{Obj{"namespace": rejNs}}
					desc.(map[string]interface{})["rejectNamespace"] = rejNs
				}
				effNs := func(ns string) string {
					if ns == "" {
						return "default"
					}
					return ns
				}
				predict = func(x *res, out Obj) (string, bool) {
					if x.kind == "Deployment" && rejNs != "" {
						cur := x.ns
						if layerNs != "" {
							cur = layerNs
						}
						if effNs(x.ns) == rejNs || effNs(cur) == rejNs {
							conts, _ := getPath(map[string]interface{}(out), ipath(nil, "spec", "template", "spec", "containers"))
							cl, _ := conts.([]interface{})
							for _, c := range cl {
								cm, _ := c.(map[string]interface{})
								if cm["image"] == "COPIED" {
									return fmt.Sprintf("replacement target rejects namespace %s: %s (namespace %q, then %q) was written all the same", rejNs, x.name, x.ns, cur), false
								}
							}
							return "", true
						}
					}
					if x.kind == "ConfigMap" && insertAt != 0 {
						want := "v,COPIED"
						if insertAt < 0 {
							want = "COPIED,v"
						}
						got, _ := getPath(map[string]interface{}(out), ipath(nil, "data", "k"))
						if got != want {
							return fmt.Sprintf("replacement with delimiter and index %d into data.k of %s: got %v, one insertion prescribes %q", insertAt, x.name, got, want), false
						}
						return "", true
					}
					if x.kind != "Deployment" {
						return "", true
					}
					conts, _ := getPath(map[string]interface{}(out), ipath(nil, "spec", "template", "spec", "containers"))
					cl, _ := conts.([]interface{})
					for _, c := range cl {
						cm, _ := c.(map[string]interface{})
						nm, _ := cm["name"].(string)
						orig := "busybox"
						if nm == "main" {
							orig = x.image
						}
						if nm == "xmain2" {
							orig = "busybox:2"
						}
						want := orig
						if nm == selName {
							want = "COPIED"
						}
						if cm["image"] != want {
							return fmt.Sprintf("replacement into [name=%s]: container %q image is %v, exact selection prescribes %q", selName, nm, cm["image"], want), false
						}
					}
					return "", true
				}
			default: // ---- replicas
				nm := pickS(r, c10Names)
				cnt := float64(2 + r.Intn(5))
				k["replicas"] = []interface{}{Obj{"name": nm, "count": cnt}}
				desc = map[string]interface{}{"mode": "replicas", "name": nm}
				predict = func(x *res, out Obj) (string, bool) {
					v, has := getPath(map[string]interface{}(out), ipath(nil, "spec", "replicas"))
					if !has {
						return "", true
					}
					want := float64(1)
					if x.name == nm && (x.kind == "Deployment" || x.kind == "StatefulSet") {
						want = cnt
					}
					if v != want {
						return fmt.Sprintf("replicas entry %s: %s %s has replicas %v, prescribes %v", nm, x.kind, x.name, v, want), false
					}
					return "", true
				}
			}
			kb, _ := yaml.Marshal(k)
			fs := filesys.MakeFsInMemory()
			fs.MkdirAll("/w")
			fs.WriteFile("/w/res.yaml", []byte(sb.String()))
			fs.WriteFile("/w/kustomization.yaml", kb)
			input := map[string]string{"/w/res.yaml": sb.String(), "/w/kustomization.yaml": string(kb)}
			if layerPrefix != "" || layerNs != "" {
				// the resources live in a base that renames / moves them; the directive under test is in the overlay
				base := Obj{"resources": []interface{}{"res.yaml"}}
				if layerPrefix != "" {
					base["namePrefix"] = layerPrefix
				}
				if layerNs != "" {
					base["namespace"] = layerNs
				}
				bb, _ := yaml.Marshal(base)
				k["resources"] = []interface{}{"base"}
				kb, _ = yaml.Marshal(k)
				fs = filesys.MakeFsInMemory()
				fs.MkdirAll("/w/base")
				fs.WriteFile("/w/base/res.yaml", []byte(sb.String()))
				fs.WriteFile("/w/base/kustomization.yaml", bb)
				fs.WriteFile("/w/kustomization.yaml", kb)
				input = map[string]string{"/w/base/res.yaml": sb.String(), "/w/base/kustomization.yaml": string(bb), "/w/kustomization.yaml": string(kb)}
			}
			out, err, pnc := safeBuild(func() (string, error) { return runBuild(fs, "/w", nil) })
			if pnc != nil {
				o.note("panic", input)
				continue
			}
			if err != nil {
				o.note(fmt.Sprintf("mode%d-%s", mode, errClass(err)), input)
				continue
			}
			o.note(fmt.Sprintf("mode%d-ok", mode), input)
			docs, _ := parseDocs(out)
			bt := byTracer(docs)
			for i, x := range rs {
				ds := bt[fmt.Sprintf("t%d", indexOfTracer(x.obj))]
				_ = i
				if len(ds) != 1 {
					continue
				}
				if what, ok := predict(x, ds[0]); !ok {
					cls := []string{"patch-target-selection", "image-selection", "replicas-selection", "replacement-selection"}[mode]
					if mode == 3 && x.kind != "ConfigMap" && !strings.HasPrefix(what, "replacement target rejects") {
						// recogniser of finding 5: the [name=v] value is used as an UNANCHORED regular expression, so
						// an element whose name merely CONTAINS v is selected as well
						sel := desc.(map[string]interface{})["element"].(string)
						conts, _ := getPath(map[string]interface{}(ds[0]), ipath(nil, "spec", "template", "spec", "containers"))
						onlySubstringHits := true
						for _, c := range conts.([]interface{}) {
							cm := c.(map[string]interface{})
							nm, _ := cm["name"].(string)
							if cm["image"] == "COPIED" && !strings.Contains(nm, sel) {
								onlySubstringHits = false
							}
							if cm["image"] != "COPIED" && nm == sel {
								onlySubstringHits = false
							}
						}
						if onlySubstringHits {
							cls = "replacement-element-selector-unanchored"
						}
					}
					// recognisers of the known findings
					if mode == 1 {
						e := desc.(map[string]interface{})["entry"].(Obj)
						nm := e["name"].(string)
						name, _, _ := splitImageRef(x.image)
						if name != nm && strings.ContainsAny(nm, ".") && regexp.MustCompile("^"+nm+"$").MatchString(name) {
							cls = "image-name-used-as-regex"
						}
					}
					o.fail(cls, what, cs, map[string]interface{}{"files": input, "directive": desc}, nil, nil)
				}
			}
		}
		return o.rep
	}
}

func indexOfTracer(o Obj) int {
	s := o["metadata"].(Obj)["annotations"].(Obj)[tracerKey].(string)
	var i int
	fmt.Sscanf(s, "t%d", &i)
	return i
}
