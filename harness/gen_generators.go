package main

import (
	"fmt"
	"math/rand"
)

// GenSpec describes one ConfigMap/Secret generator entry of a layer (for C06 and for the other whole-build oracles).
type GenSpec struct {
	Layer    int
	Kind     string // ConfigMap | Secret
	Name     string
	NS       string
	Behavior string // "", create, merge, replace
	Literals [][2]string
	EnvFile  [][2]string
	Files    [][2]string // key, content
	Disable  bool        // disableNameSuffixHash
	Tracer   string
	// labels the generated object must carry when it is created here: the layer's generatorOptions.labels
	// overlaid by the generator's own options.labels
	WantLabels map[string]string
}

// addGenerators decorates the tree with generator entries; returns the specs.
func addGenerators(r *rand.Rand, t *Tree) []GenSpec {
	if !t.Feat.Generators {
		return nil
	}
	var specs []GenSpec
	names := []string{"cfg", "cfg-1", "settings"}
	exists := map[string]int{} // kind/name -> layer of creation
	for li, L := range t.Layers {
		var cms, secs []interface{}
		n := r.Intn(3)
		// generatorOptions of a kustomization apply to ITS generators only (they do not reach into bases)
		layerDisable := r.Intn(6) == 0
		// global labels / annotations beside generators whose own options have neither, one, or both maps
		var gLabels, gAnnos map[string]string
		if r.Intn(4) == 0 {
			gLabels = map[string]string{"gopt": fmt.Sprintf("l%d", li)}
		}
		if r.Intn(8) == 0 {
			gAnnos = map[string]string{"gopt-a": "y"}
		}
		for i := 0; i < n; i++ {
			kind := pickS(r, []string{"ConfigMap", "ConfigMap", "Secret"})
			name := pickS(r, names)
			key := kind + "/" + name
			g := GenSpec{Layer: li, Kind: kind, Name: name}
			if prev, ok := exists[key]; ok && !t.Visible(prev, li) {
				continue // defined in a sibling subtree: a second definition would collide at the common parent
			}
			if _, ok := exists[key]; ok {
				g.Behavior = pickS(r, []string{"merge", "merge", "replace"})
				if r.Intn(12) == 0 {
					g.Behavior = pickS(r, []string{"create", ""})
				}
			} else {
				g.Behavior = pickS(r, []string{"", "create", ""})
				if r.Intn(15) == 0 {
					g.Behavior = pickS(r, []string{"merge", "replace"})
				}
				exists[key] = li
			}
			dup := false
			for _, s := range specs {
				if s.Layer == li && s.Kind == kind && s.Name == name {
					dup = true
				}
			}
			if dup {
				continue
			}
			nk := 1 + r.Intn(3)
			for j := 0; j < nk; j++ {
				g.Literals = append(g.Literals, [2]string{pickS(r, []string{"a", "b", "c", "d.e"}), pickS(r, []string{"1", "x", "hello world", "yes", "", "v=w"})})
			}
			// dedupe keys inside one generator (duplicate keys are an error by design)
			seenK := map[string]bool{}
			var lits [][2]string
			for _, kv := range g.Literals {
				if !seenK[kv[0]] {
					seenK[kv[0]] = true
					lits = append(lits, kv)
				}
			}
			g.Literals = lits
			g.Tracer = t.newID()
			e := Obj{"name": name}
			var ls []interface{}
			for _, kv := range g.Literals {
				ls = append(ls, kv[0]+"="+kv[1])
			}
			e["literals"] = ls
			if g.Behavior != "" {
				e["behavior"] = g.Behavior
			}
			opt := Obj{"annotations": Obj{tracerKey: g.Tracer}}
			if r.Intn(6) == 0 {
				g.Disable = true
				opt["disableNameSuffixHash"] = true
			}
			if layerDisable {
				g.Disable = true
			}
			g.WantLabels = map[string]string{}
			for k, v := range gLabels {
				g.WantLabels[k] = v
			}
			if r.Intn(3) == 0 {
				own := map[string]string{pickS(r, []string{"gopt", "own"}): "local"}
				opt["labels"] = toObj(own)
				for k, v := range own {
					g.WantLabels[k] = v
				}
			}
			e["options"] = opt
			if kind == "ConfigMap" {
				cms = append(cms, e)
			} else {
				secs = append(secs, e)
			}
			specs = append(specs, g)
			if exists[key] == li && g.Behavior != "merge" && g.Behavior != "replace" {
				// first definition: a referable object; workloads of the same layer (same directive chain) may refer to it
				gr := &GenRes{ID: g.Tracer, Kind: kind, Name: name, NS: "", Layer: li, Gen: true}
				t.Res = append(t.Res, gr)
				if t.Feat.Refs {
					for _, w := range t.Res {
						if w.Gen || w.Layer != li || w.NS != "" {
							continue
						}
						for _, k := range workloadKinds {
							if w.Kind == k && r.Intn(2) == 0 {
								t.addPodRef(r, w, gr)
							}
						}
					}
				}
			}
			_ = fmt.Sprint
		}
		gopt := Obj{}
		if layerDisable {
			gopt["disableNameSuffixHash"] = true
		}
		if gLabels != nil {
			gopt["labels"] = toObj(gLabels)
		}
		if gAnnos != nil {
			gopt["annotations"] = toObj(gAnnos)
		}
		if len(gopt) > 0 && n > 0 {
			L.Kust["generatorOptions"] = gopt
		}
		if len(cms) > 0 {
			L.Kust["configMapGenerator"] = cms
		}
		if len(secs) > 0 {
			L.Kust["secretGenerator"] = secs
		}
	}
	return specs
}
