package main

import (
	"fmt"
	"math/rand"
	"sort"

	"sigs.k8s.io/kustomize/kyaml/openapi"
	"sigs.k8s.io/kustomize/kyaml/yaml"
)

func customSchemaN(n int) []byte {
	return []byte(fmt.Sprintf(`{"definitions": {"v1.MyKind%d": {"type": "object", "properties": {"spec": {"type": "object"}},
 "x-kubernetes-group-version-kind": [{"group": "example.com", "kind": "MyKind%d", "version": "v1"}]}},
 "paths": {"/apis/example.com/v1/namespaces/{namespace}/mykind%ds": {"get": {"x-kubernetes-group-version-kind": {"group": "example.com", "kind": "MyKind%d", "version": "v1"}}}}}`, n, n, n, n))
}

func init() {
	components["openapi.seq"] = func(r *rand.Rand, tier string) (map[string]interface{}, func() (interface{}, string)) {
		nb := 1 + r.Intn(5)
		type bld struct {
			sel string
			ops []string
		}
		var builds []bld
		var wb []interface{}
		for i := 0; i < nb; i++ {
			sel := pick(r, []string{"default", "default", "defaultExplicit", "custom1", "custom2", "v9.9.9"})
			var ops []string
			for j := 0; j < r.Intn(4); j++ {
				ops = append(ops, pick(r, []string{"ns", "use"}))
			}
			builds = append(builds, bld{sel, ops})
			wops := []interface{}{}
			for _, o := range ops {
				wops = append(wops, o)
			}
			wb = append(wb, map[string]interface{}{"sel": sel, "ops": wops})
		}
		args := map[string]interface{}{"builds": wb}
		return args, func() (interface{}, string) {
			openapi.ResetOpenAPI()
			defer openapi.ResetOpenAPI()
			var out []interface{}
			cls := "default-only"
			for _, b := range builds {
				field := map[string]string{}
				var bytes []byte
				switch b.sel {
				case "default":
				case "defaultExplicit":
					field["version"] = "v1.21.2"
				case "custom1":
					field["path"], bytes, cls = "x", customSchemaN(1), "with-custom"
				case "custom2":
					field["path"], bytes, cls = "x", customSchemaN(2), "with-custom"
				default:
					field["version"] = b.sel
				}
				if err := openapi.SetSchema(field, bytes, true); err != nil {
					out = append(out, nil)
					continue
				}
				obs := []interface{}{}
				for _, op := range b.ops {
					customs := []int{}
					hasBuiltin := false
					if op == "ns" {
						for c := 1; c <= 2; c++ {
							if _, found := openapi.IsNamespaceScoped(yaml.TypeMeta{APIVersion: "example.com/v1", Kind: fmt.Sprintf("MyKind%d", c)}); found {
								customs = append(customs, c)
							}
						}
					} else {
						hasBuiltin = openapi.SchemaForResourceType(yaml.TypeMeta{APIVersion: "apps/v1", Kind: "Deployment"}) != nil
						for c := 1; c <= 2; c++ {
							if openapi.SchemaForResourceType(yaml.TypeMeta{APIVersion: "example.com/v1", Kind: fmt.Sprintf("MyKind%d", c)}) != nil {
								customs = append(customs, c)
							}
						}
					}
					sort.Ints(customs)
					cl := []interface{}{}
					for _, c := range customs {
						cl = append(cl, c)
					}
					obs = append(obs, map[string]interface{}{"hasBuiltin": hasBuiltin, "customs": cl})
				}
				out = append(out, obs)
			}
			return map[string]interface{}{"ok": out}, cls
		}
	}
}
