package main

import (
	"fmt"
	"math/rand"
	"reflect"
	"strings"

	"sigs.k8s.io/kustomize/kyaml/filesys"
	"sigs.k8s.io/yaml"
)

func yamlMarshal(v interface{}) ([]byte, error) { return yaml.Marshal(v) }

// diffPaths lists the leaf paths at which a and b differ as typed JSON values.
func diffPaths(a, b interface{}, path []string, out *[][]string) {
	switch av := a.(type) {
	case map[string]interface{}:
		bv, ok := b.(map[string]interface{})
		if !ok {
			*out = append(*out, append([]string{}, path...))
			return
		}
		keys := map[string]bool{}
		for k := range av {
			keys[k] = true
		}
		for k := range bv {
			keys[k] = true
		}
		for k := range keys {
			x, okx := av[k]
			y, oky := bv[k]
			if !okx || !oky {
				*out = append(*out, append(append([]string{}, path...), k))
				continue
			}
			diffPaths(x, y, append(path, k), out)
		}
	case []interface{}:
		bv, ok := b.([]interface{})
		if !ok || len(av) != len(bv) {
			*out = append(*out, append([]string{}, path...))
			return
		}
		for i := range av {
			diffPaths(av[i], bv[i], append(path, fmt.Sprint(i)), out)
		}
	default:
		if !reflect.DeepEqual(a, b) {
			*out = append(*out, append([]string{}, path...))
		}
	}
}

func pathHasPrefix(p []string, pre []interface{}) bool {
	if len(p) < len(pre) {
		return false
	}
	for i, x := range pre {
		if s, ok := x.(string); ok && p[i] != s {
			return false
		}
	}
	return true
}

// C02: untargeted content passes through unchanged; resources appear exactly once.
func init() {
	oracles["C02"] = func(seed int64, n int, tier, work string) *oracleReport {
		o := newOracleRun("C02", seed)
		for _, cs := range caseSeeds(seed, n, "C02") {
			r := rand.New(rand.NewSource(cs))
			if r.Intn(6) == 0 {
				c02Sharing(o, r, cs)
				continue
			}
			if r.Intn(8) == 0 {
				c02PatchIdentity(o, r, cs)
				continue
			}
			if r.Intn(8) == 0 {
				c02JsonPatchFrame(o, r, cs)
				continue
			}
			f := allFeat()
			f.Adversarial = true
			f.Dense = r.Intn(3) == 0
			t := genTree(r, f)
			addGenerators(r, t)
			if r.Intn(5) == 0 {
				// annotation / label KEYS that are strings spelled like numbers (quoted in the input): the build may refuse them,
				// it must not rename them
				for _, g := range t.Res {
					if g.Gen || r.Intn(3) != 0 {
						continue
					}
					md, _ := g.Obj["metadata"].(Obj)
					an, _ := md["annotations"].(Obj)
					if an == nil {
						continue
					}
					an[pickS(r, []string{"012", "0x1F", "1e3", "010", "8", "1_000", "0o17", "1.50"})] = "numeric-looking-key"
				}
			}
			fs := filesys.MakeFsInMemory()
			t.Write(fs, "/w")
			out, err, pnc := safeBuild(func() (string, error) { return runBuild(fs, t.TopDir("/w"), nil) })
			if pnc != nil {
				o.note("panic", cs)
				continue
			}
			if err != nil {
				cls := errClass(err)
				o.note(cls, cs)
				// recogniser of finding 11: a label/annotation VALUE/KEY dictionary entry makes AsYaml fail
				continue
			}
			o.note("ok", cs)
			docs, perr := parseDocs(out)
			if perr != nil {
				o.fail("output-unparsable", perr.Error(), cs, t.Describe(), nil, nil)
				continue
			}
			bt := byTracer(docs)
			for _, g := range t.Res {
				if g.Gen {
					continue
				}
				if len(bt[g.ID]) != 1 {
					o.fail("resource-count", fmt.Sprintf("%s %s appears %d times in the output", g.Kind, g.Name, len(bt[g.ID])), cs, t.Describe(), len(bt[g.ID]), 1)
					continue
				}
				od := bt[g.ID][0]
				// footprint of the directives on g's layer chain
				labelKeys, metaLabelKeys, annoKeys := map[string]bool{}, map[string]bool{}, map[string]bool{"patched": false, "jp": false}
				images, replicas := false, false
				var patchPaths [][]interface{}
				for _, li := range t.Chain(g.Layer) {
					L := t.Layers[li]
					for k := range L.Labels {
						labelKeys[k] = true
					}
					for k := range L.MetaLabels {
						metaLabelKeys[k] = true
					}
					for k := range L.Annos {
						annoKeys[k] = true
					}
					images = images || len(L.Images) > 0
					replicas = replicas || len(L.Replicas) > 0
					for _, p := range L.Patches {
						if p.Target == g.ID {
							patchPaths = append(patchPaths, p.Paths...)
							continue
						}
						// a target selector {kind, name} also selects every other resource of that kind that bears the name at
						// this point of ITS rename chain (`app` under an inner prefix `x` is `xapp` here): documented selection
						if tg := t.resByID(p.Target); tg != nil && tg.Kind == g.Kind && t.chainNames(g)[tg.Name] {
							patchPaths = append(patchPaths, p.Paths...)
						}
					}
				}
				var edgePaths [][]interface{}
				for _, e := range t.Edges {
					if e.From == g.ID && !e.NoRule {
						edgePaths = append(edgePaths, e.Path)
					}
				}
				var dp [][]string
				diffPaths(map[string]interface{}(g.Obj), map[string]interface{}(od), nil, &dp)
				for _, p := range dp {
					last := p[len(p)-1]
					parent := ""
					if len(p) >= 2 {
						parent = p[len(p)-2]
					}
					ok := false
					switch {
					case len(p) == 2 && p[0] == "metadata" && (last == "name" || last == "namespace"):
						ok = true
					case len(p) == 3 && p[0] == "subjects" && last == "namespace" && (g.Kind == "RoleBinding" || g.Kind == "ClusterRoleBinding"):
						// the namespace directive documents `subjects` of (Cluster)RoleBindings as part of its footprint
						for _, li := range t.Chain(g.Layer) {
							if t.Layers[li].NS != "" {
								ok = true
							}
						}
					case (parent == "labels" || parent == "matchLabels" || parent == "selector") && (labelKeys[last] || (metaLabelKeys[last] && parent == "labels")):
						ok = true
					case (last == "labels" || last == "matchLabels" || last == "selector" || last == "annotations"):
						// a map created by a directive (create: true); its content is checked below
						ok = len(labelKeys)+len(metaLabelKeys)+len(annoKeys) > 2
					case parent == "annotations" && annoKeys[last]:
						ok = true
					case last == "image" && images:
						ok = true
					case len(p) == 2 && p[0] == "spec" && last == "replicas" && replicas:
						ok = true
					case len(p) >= 2 && p[0] == "metadata" && len(p) >= 3 && p[1] == "annotations" && (last == "patched" || last == "jp"):
						ok = len(patchPaths) > 0
					}
					for _, pp := range patchPaths {
						if pathHasPrefix(p, pp) {
							ok = true
						}
					}
					for _, ep := range edgePaths {
						// reference fields may be rewritten (selector steps compare by position in p only loosely: last key must agree)
						if s, isS := ep[len(ep)-1].(string); isS && s == last {
							ok = true
						}
					}
					// templates / selectors / metadata created on the way to a directive location
					if !ok && (strings.Contains(strings.Join(p, "/"), "template/metadata") || strings.Contains(strings.Join(p, "/"), "jobTemplate/metadata")) &&
						(len(labelKeys)+len(annoKeys) > 2 || len(metaLabelKeys) > 0) {
						ok = true
					}
					if !ok {
						iv, _ := getPath(map[string]interface{}(g.Obj), ipath(p))
						ov, _ := getPath(map[string]interface{}(od), ipath(p))
						cls := "untargeted-field-changed"
						if fmt.Sprint(iv) == fmt.Sprint(ov) && reflect.TypeOf(iv) != reflect.TypeOf(ov) {
							cls = "scalar-type-changed"
						}
						o.fail(cls, fmt.Sprintf("%s %s: field %s changed from %#v to %#v although no directive targets it", g.Kind, g.Name, strings.Join(p, "."), iv, ov), cs, t.Describe(), ov, iv)
					}
				}
			}
		}
		return o.rep
	}
}

// c02Sharing: a NON-SCALAR value (map or list) is copied by a replacement from one resource into several others;
// afterwards a directive edits inside the copy held by ONE of them (JSON patch, strategic-merge patch, a second
// replacement, in the same or an outer layer).  The holder of the source and the other copies are not targeted by
// that directive and must come out with the value as copied.
func c02Sharing(o *oracleRun, r *rand.Rand, cs int64) {
	list := r.Intn(3) == 0
	var block interface{} = Obj{"runAsUser": float64(1000), "level": "012", "nested": Obj{"cpu": "1", "mem": "2"}}
	if list {
		block = []interface{}{Obj{"name": "first", "cpu": "1"}, Obj{"name": "second", "cpu": "2"}}
	}
	kind := pickS(r, []string{"Widget", "Widget", "ConfigMap"})
	api := "example.com/v1"
	if kind == "ConfigMap" {
		api = "v1"
	}
	mk := func(name string, spec Obj) Obj {
		return Obj{"apiVersion": api, "kind": kind, "metadata": Obj{"name": name}, "spec": spec}
	}
	holders := []string{"a", "b", "c"}[:2+r.Intn(2)]
	docs := []Obj{mk("defaults", Obj{"block": block, "other": "keep"})}
	for _, h := range holders {
		sp := Obj{"other": "keep-" + h}
		if r.Intn(2) == 0 {
			sp["block"] = Obj{"old": "x"} // replaced wholesale
		}
		docs = append(docs, mk(h, sp))
	}
	if r.Intn(2) == 0 { // source listed after the holders
		docs = append(docs[1:], docs[0])
	}
	var sb strings.Builder
	for i, d := range docs {
		if i > 0 {
			sb.WriteString("---\n")
		}
		b, _ := yamlMarshal(d)
		sb.Write(b)
	}
	var tsel []interface{}
	if r.Intn(2) == 0 {
		for _, h := range holders {
			tsel = append(tsel, Obj{"select": Obj{"kind": kind, "name": h}, "fieldPaths": []interface{}{"spec.block"}, "options": Obj{"create": true}})
		}
	} else {
		tsel = append(tsel, Obj{"select": Obj{"kind": kind}, "reject": []interface{}{Obj{"name": "defaults"}}, "fieldPaths": []interface{}{"spec.block"}, "options": Obj{"create": true}})
	}
	copyRepl := Obj{"source": Obj{"kind": kind, "name": "defaults", "fieldPath": "spec.block"}, "targets": tsel}
	edited := holders[r.Intn(len(holders))]
	// the edit: path inside the block and the new value
	var editPath []interface{}
	var jpPath, replPath string
	if list {
		editPath, jpPath, replPath = ipath(nil, "spec", "block", 1, "cpu"), "/spec/block/1/cpu", "spec.block.1.cpu"
	} else if r.Intn(2) == 0 {
		editPath, jpPath, replPath = ipath(nil, "spec", "block", "nested", "cpu"), "/spec/block/nested/cpu", "spec.block.nested.cpu"
	} else {
		editPath, jpPath, replPath = ipath(nil, "spec", "block", "level"), "/spec/block/level", "spec.block.level"
	}
	base := Obj{"resources": []interface{}{"res.yaml"}, "replacements": []interface{}{copyRepl}}
	over := Obj{"resources": []interface{}{"../base"}}
	mode := r.Intn(4)
	if list && mode == 1 {
		mode = 0 // a strategic-merge patch of a schemaless list replaces it: use the JSON patch instead
	}
	where := over
	if r.Intn(3) == 0 && mode != 2 {
		where = base // same layer: patches run before replacements there, so the edit must come from a replacement
		mode = 2
	}
	switch mode {
	case 0:
		where["patches"] = []interface{}{Obj{"target": Obj{"kind": kind, "name": edited}, "patch": "- op: replace\n  path: " + jpPath + "\n  value: \"8\"\n"}}
	case 1:
		inner := "level: \"8\""
		if strings.Contains(replPath, "nested") {
			inner = "nested:\n      cpu: \"8\""
		}
		where["patches"] = []interface{}{Obj{"patch": "apiVersion: " + api + "\nkind: " + kind + "\nmetadata:\n  name: " + edited + "\nspec:\n  block:\n    " + inner + "\n"}}
	default:
		edit := Obj{"sourceValue": "8", "targets": []interface{}{Obj{"select": Obj{"kind": kind, "name": edited}, "fieldPaths": []interface{}{replPath}}}}
		if rl, ok := where["replacements"].([]interface{}); ok {
			where["replacements"] = append(rl, edit)
		} else {
			where["replacements"] = []interface{}{edit}
		}
	}
	fs := filesys.MakeFsInMemory()
	fs.MkdirAll("/w/base")
	fs.MkdirAll("/w/over")
	kb, _ := yamlMarshal(base)
	ko, _ := yamlMarshal(over)
	fs.WriteFile("/w/base/res.yaml", []byte(sb.String()))
	fs.WriteFile("/w/base/kustomization.yaml", kb)
	fs.WriteFile("/w/over/kustomization.yaml", ko)
	input := map[string]interface{}{"base/res.yaml": sb.String(), "base/kustomization.yaml": string(kb), "over/kustomization.yaml": string(ko), "edited": edited}
	out, err, pnc := safeBuild(func() (string, error) { return runBuild(fs, "/w/over", nil) })
	if pnc != nil {
		o.note("sharing-panic", input)
		return
	}
	if err != nil {
		o.note("sharing-"+errClass(err), input)
		return
	}
	o.note("sharing-ok", input)
	outDocs, perr := parseDocs(out)
	if perr != nil {
		o.fail("output-unparsable", perr.Error(), cs, input, nil, nil)
		return
	}
	byName := map[string]Obj{}
	for _, d := range outDocs {
		md, _ := d["metadata"].(map[string]interface{})
		n, _ := md["name"].(string)
		byName[n] = d
	}
	for _, n := range append([]string{"defaults"}, holders...) {
		d, ok := byName[n]
		if !ok {
			o.fail("resource-count", "resource "+n+" missing from the output", cs, input, nil, nil)
			continue
		}
		got, _ := getPath(map[string]interface{}(d), ipath(nil, "spec", "block"))
		want := deepCopyJSON(block)
		if n == edited {
			setPathJSON(map[string]interface{}{"spec": map[string]interface{}{"block": want}}, editPath, "8", &want)
		}
		if !reflect.DeepEqual(normJSON(got), normJSON(want)) {
			cls := "untargeted-field-changed"
			if n == edited {
				cls = "edited-copy-wrong"
			}
			o.fail(cls, fmt.Sprintf("%s %s: spec.block is %v, expected %v (only %s was edited after the copy)", kind, n, got, want, edited), cs, input, got, want)
		}
		if ov, _ := getPath(map[string]interface{}(d), ipath(nil, "spec", "other")); n == "defaults" && ov != "keep" {
			o.fail("untargeted-field-changed", "defaults.spec.other changed", cs, input, ov, "keep")
		}
	}
}

func deepCopyJSON(v interface{}) interface{} {
	switch x := v.(type) {
	case map[string]interface{}:
		m := map[string]interface{}{}
		for k, e := range x {
			m[k] = deepCopyJSON(e)
		}
		return m
	case []interface{}:
		l := make([]interface{}, len(x))
		for i, e := range x {
			l[i] = deepCopyJSON(e)
		}
		return l
	}
	return v
}

func normJSON(v interface{}) interface{} { return deepCopyJSON(v) }

// setPathJSON sets the value at path (below spec.block) inside *block.
func setPathJSON(_ map[string]interface{}, path []interface{}, val interface{}, block *interface{}) {
	cur := *block
	rest := path[2:] // drop spec, block
	for i, step := range rest {
		lastStep := i == len(rest)-1
		switch k := step.(type) {
		case string:
			m := cur.(map[string]interface{})
			if lastStep {
				m[k] = val
				return
			}
			cur = m[k]
		case int:
			l := cur.([]interface{})
			if lastStep {
				l[k] = val
				return
			}
			cur = l[k]
		}
	}
}

// c02PatchIdentity: a patch with a target whose body spells kind and/or name differently from the target.  The identity
// fields are targeted only when the entry's options say so — allowNameChange for the name, allowKindChange for the kind,
// each by itself; every other field the patch does not mention stays as it was, and so does the bystander.
func c02PatchIdentity(o *oracleRun, r *rand.Rand, cs int64) {
	kinds := [][2]string{{"StatefulSet", "apps/v1"}, {"Deployment", "apps/v1"}, {"Widget", "example.com/v1"}}
	tk := kinds[r.Intn(len(kinds))]
	pk := kinds[r.Intn(len(kinds))]
	for pk[1] != tk[1] { // the patch keeps the group/version of its target
		pk = kinds[r.Intn(len(kinds))]
	}
	pname := pickS(r, []string{"web", "not-important", "other"})
	allowName, allowKind := r.Intn(2) == 0, r.Intn(2) == 0
	// names that LOOK like numbers or booleans are strings all the same (written quoted in the input)
	tname := pickS(r, []string{"web", "web", "123", "true", "1e3"})
	res := fmt.Sprintf("apiVersion: %s\nkind: %s\nmetadata:\n  name: \"%s\"\n  labels:\n    keep: \"012\"\nspec:\n  replicas: 1\n  serviceName: \"yes\"\n---\napiVersion: v1\nkind: ConfigMap\nmetadata:\n  name: bystander\ndata:\n  k: \"on\"\n", tk[1], tk[0], tname)
	patch := fmt.Sprintf("apiVersion: %s\nkind: %s\nmetadata:\n  name: %s\nspec:\n  replicas: 3\n", pk[1], pk[0], pname)
	replaceMeta := r.Intn(3) == 0
	if replaceMeta {
		// the patch REPLACES the metadata mapping (its labels are the patch's business then; the identity is not)
		patch = fmt.Sprintf("apiVersion: %s\nkind: %s\nmetadata:\n  $patch: replace\n  name: %s\n  labels:\n    keep: \"012\"\nspec:\n  replicas: 3\n", pk[1], pk[0], pname)
	}
	var opts []string
	if allowName {
		opts = append(opts, "allowNameChange: true")
	}
	if allowKind {
		opts = append(opts, "allowKindChange: true")
	}
	k := "resources:\n- res.yaml\npatches:\n- path: patch.yaml\n  target:\n    kind: " + tk[0] + "\n    name: \"" + tname + "\"\n"
	if len(opts) > 0 {
		k += "  options:\n    " + strings.Join(opts, "\n    ") + "\n"
	}
	fs := filesys.MakeFsInMemory()
	files := map[string]string{"/w/res.yaml": res, "/w/patch.yaml": patch, "/w/kustomization.yaml": k}
	for p, c := range files {
		fs.WriteFile(p, []byte(c))
	}
	in := map[string]interface{}{"scenario": "patch-identity", "allowNameChange": allowName, "allowKindChange": allowKind, "replaceMetadata": replaceMeta, "files": files}
	out, err, pnc := safeBuild(func() (string, error) { return runBuild(fs, "/w", nil) })
	if pnc != nil || err != nil {
		o.note("patch-identity-"+errClass(err), in)
		return
	}
	o.note(fmt.Sprintf("patch-identity-ok-name=%v-kind=%v", allowName, allowKind), in)
	docs, _ := parseDocs(out)
	wantKind, wantName := tk[0], tname
	if allowKind {
		wantKind = pk[0]
	}
	if allowName {
		wantName = pname
	}
	found := false
	for _, d := range docs {
		md, _ := d["metadata"].(map[string]interface{})
		if d["kind"] == "ConfigMap" {
			if md["name"] != "bystander" || !reflect.DeepEqual(d["data"], map[string]interface{}{"k": "on"}) {
				o.fail("untargeted-resource-changed", "the bystander of a targeted patch changed", cs, in, d, nil)
			}
			continue
		}
		found = true
		if _, isStr := md["name"].(string); !isStr && d["kind"] == wantKind && !allowName && replaceMeta {
			// recogniser of finding C02-K1: the name is put back over the PLAIN-styled scalar the patch left there; FieldSetter
			// lets the new value inherit that style, so a name that looks like a number or a boolean is written unquoted
			o.fail("restored-name-loses-string-type", fmt.Sprintf("the name %q of the patched resource comes out as %v (%T): restoring the identity after a patch that replaced the metadata re-types it", wantName, md["name"], md["name"]), cs, in, md["name"], wantName)
			continue
		}
		if d["kind"] != wantKind || md["name"] != wantName {
			o.fail("identity-changed-without-option", fmt.Sprintf("patched resource is %v/%v; with allowNameChange=%v allowKindChange=%v the directive targets identity fields so that it must be %s/%s",
				d["kind"], md["name"], allowName, allowKind, wantKind, wantName), cs, in, fmt.Sprintf("%v/%v", d["kind"], md["name"]), wantKind+"/"+wantName)
		}
		sp, _ := d["spec"].(map[string]interface{})
		lb, _ := md["labels"].(map[string]interface{})
		if sp["serviceName"] != "yes" || lb["keep"] != "012" {
			o.fail("untargeted-field-changed", "a field the patch does not mention changed (value or type)", cs, in, d, nil)
		}
	}
	if !found || len(docs) != 2 {
		o.fail("resource-count", fmt.Sprintf("%d documents in the output, 2 resources in the input", len(docs)), cs, in, len(docs), 2)
	}
}

// c02JsonPatchFrame: a JSON 6902 patch rewrites the whole resource through JSON; every value it does not address — numbers,
// booleans, nulls and number-like strings at any nesting of maps and lists, lists directly inside lists included — comes
// out with the same type and value.
func c02JsonPatchFrame(o *oracleRun, r *rand.Rand, cs int64) {
	leaf := func() interface{} {
		switch r.Intn(7) {
		case 0:
			return float64(r.Intn(100))
		case 1:
			return 4.5
		case 2:
			return r.Intn(2) == 0
		case 3:
			return nil
		case 4:
			return pickS(r, []string{"012", "1e3", "yes", "123", "true", "null", "9007199254740993"})
		case 5:
			return float64(9007199254740992)
		}
		return pickS(r, []string{"x", "a b"})
	}
	var gen func(d int) interface{}
	gen = func(d int) interface{} {
		if d == 0 || r.Intn(3) == 0 {
			return leaf()
		}
		if r.Intn(2) == 0 {
			var l []interface{}
			for i := 0; i < 1+r.Intn(3); i++ {
				l = append(l, gen(d-1))
			}
			return l
		}
		m := Obj{}
		for i := 0; i < 1+r.Intn(2); i++ {
			m[pickS(r, []string{"a", "b", "c"})] = gen(d - 1)
		}
		return m
	}
	spec := Obj{"replicas": float64(1), "grid": []interface{}{[]interface{}{float64(1), float64(2)}, []interface{}{float64(3), 4.5, []interface{}{true, nil, "012"}}}, "free": gen(4), "more": gen(3)}
	res := Obj{"apiVersion": "example.com/v1", "kind": "Widget", "metadata": Obj{"name": "w"}, "spec": spec}
	rb, _ := yamlMarshal(res)
	k := "resources:\n- res.yaml\npatches:\n- target: {kind: Widget, name: w}\n  patch: |-\n    - op: replace\n      path: /spec/replicas\n      value: 3\n"
	fs := filesys.MakeFsInMemory()
	files := map[string]string{"/w/res.yaml": string(rb), "/w/kustomization.yaml": k}
	for p, c := range files {
		fs.WriteFile(p, []byte(c))
	}
	in := map[string]interface{}{"scenario": "json-patch-frame", "files": files}
	out, err, pnc := safeBuild(func() (string, error) { return runBuild(fs, "/w", nil) })
	if pnc != nil || err != nil {
		o.note("json-patch-frame-"+errClass(err), in)
		return
	}
	o.note("json-patch-frame-ok", in)
	docs, _ := parseDocs(out)
	if len(docs) != 1 {
		o.fail("resource-count", fmt.Sprintf("%d documents in the output, 1 resource in the input", len(docs)), cs, in, len(docs), 1)
		return
	}
	var inDoc Obj
	yaml.Unmarshal(rb, &inDoc)
	var diffs [][]string
	diffPaths(map[string]interface{}(inDoc), map[string]interface{}(docs[0]), nil, &diffs)
	for _, d := range diffs {
		if len(d) == 2 && d[0] == "spec" && d[1] == "replicas" {
			continue
		}
		o.fail("untargeted-field-changed", "a JSON patch on /spec/replicas changed (the value or the type at) "+strings.Join(d, "/"), cs, in, d, nil)
		break
	}
}
