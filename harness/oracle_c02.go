package main

import (
	"fmt"
	"math/rand"
	"reflect"
	"strings"

	"sigs.k8s.io/kustomize/kyaml/filesys"
)

// diffPaths lists the leaf paths at which a and b differ as typed JSON values.
func diffPaths(a, b interface{}, path []string, out *[][]string) {
	switch av := a.(type) {
	case map[string]interface{}:
		bv, ok := b.(map[string]interface{})
		if !ok {
			*out = append(*out, append([]string{}, path...))
			return
		}
		keys := map[string]bool{}
		for k := range av {
			keys[k] = true
		}
		for k := range bv {
			keys[k] = true
		}
		for k := range keys {
			x, okx := av[k]
			y, oky := bv[k]
			if !okx || !oky {
				*out = append(*out, append(append([]string{}, path...), k))
				continue
			}
			diffPaths(x, y, append(path, k), out)
		}
	case []interface{}:
		bv, ok := b.([]interface{})
		if !ok || len(av) != len(bv) {
			*out = append(*out, append([]string{}, path...))
			return
		}
		for i := range av {
			diffPaths(av[i], bv[i], append(path, fmt.Sprint(i)), out)
		}
	default:
		if !reflect.DeepEqual(a, b) {
			*out = append(*out, append([]string{}, path...))
		}
	}
}

func pathHasPrefix(p []string, pre []interface{}) bool {
	if len(p) < len(pre) {
		return false
	}
	for i, x := range pre {
		if s, ok := x.(string); ok && p[i] != s {
			return false
		}
	}
	return true
}

// C02: untargeted content passes through unchanged; resources appear exactly once.
func init() {
	oracles["C02"] = func(seed int64, n int, tier, work string) *oracleReport {
		o := newOracleRun("C02", seed)
		for _, cs := range caseSeeds(seed, n, "C02") {
			r := rand.New(rand.NewSource(cs))
			f := allFeat()
			f.Adversarial = true
			f.Dense = r.Intn(3) == 0
			t := genTree(r, f)
			addGenerators(r, t)
			fs := filesys.MakeFsInMemory()
			t.Write(fs, "/w")
			out, err, pnc := safeBuild(func() (string, error) { return runBuild(fs, t.TopDir("/w"), nil) })
			if pnc != nil {
				o.note("panic", cs)
				continue
			}
			if err != nil {
				cls := errClass(err)
				o.note(cls, cs)
				// recogniser of finding 11: a label/annotation VALUE/KEY dictionary entry makes AsYaml fail
				continue
			}
			o.note("ok", cs)
			docs, perr := parseDocs(out)
			if perr != nil {
				o.fail("output-unparsable", perr.Error(), cs, t.Describe(), nil, nil)
				continue
			}
			bt := byTracer(docs)
			for _, g := range t.Res {
				if g.Gen {
					continue
				}
				if len(bt[g.ID]) != 1 {
					o.fail("resource-count", fmt.Sprintf("%s %s appears %d times in the output", g.Kind, g.Name, len(bt[g.ID])), cs, t.Describe(), len(bt[g.ID]), 1)
					continue
				}
				od := bt[g.ID][0]
				// footprint of the directives on g's layer chain
				labelKeys, metaLabelKeys, annoKeys := map[string]bool{}, map[string]bool{}, map[string]bool{"patched": false, "jp": false}
				images, replicas := false, false
				var patchPaths [][]interface{}
				for _, li := range t.Chain(g.Layer) {
					L := t.Layers[li]
					for k := range L.Labels {
						labelKeys[k] = true
					}
					for k := range L.MetaLabels {
						metaLabelKeys[k] = true
					}
					for k := range L.Annos {
						annoKeys[k] = true
					}
					images = images || len(L.Images) > 0
					replicas = replicas || len(L.Replicas) > 0
					for _, p := range L.Patches {
						if p.Target == g.ID {
							patchPaths = append(patchPaths, p.Paths...)
							continue
						}
						// a target selector {kind, name} also selects every other resource of that kind that bears the name at
						// this point of ITS rename chain (`app` under an inner prefix `x` is `xapp` here): documented selection
						if tg := t.resByID(p.Target); tg != nil && tg.Kind == g.Kind && t.chainNames(g)[tg.Name] {
							patchPaths = append(patchPaths, p.Paths...)
						}
					}
				}
				var edgePaths [][]interface{}
				for _, e := range t.Edges {
					if e.From == g.ID && !e.NoRule {
						edgePaths = append(edgePaths, e.Path)
					}
				}
				var dp [][]string
				diffPaths(map[string]interface{}(g.Obj), map[string]interface{}(od), nil, &dp)
				for _, p := range dp {
					last := p[len(p)-1]
					parent := ""
					if len(p) >= 2 {
						parent = p[len(p)-2]
					}
					ok := false
					switch {
					case len(p) == 2 && p[0] == "metadata" && (last == "name" || last == "namespace"):
						ok = true
					case len(p) == 3 && p[0] == "subjects" && last == "namespace" && (g.Kind == "RoleBinding" || g.Kind == "ClusterRoleBinding"):
						// the namespace directive documents `subjects` of (Cluster)RoleBindings as part of its footprint
						for _, li := range t.Chain(g.Layer) {
							if t.Layers[li].NS != "" {
								ok = true
							}
						}
					case (parent == "labels" || parent == "matchLabels" || parent == "selector") && (labelKeys[last] || (metaLabelKeys[last] && parent == "labels")):
						ok = true
					case (last == "labels" || last == "matchLabels" || last == "selector" || last == "annotations"):
						// a map created by a directive (create: true); its content is checked below
						ok = len(labelKeys)+len(metaLabelKeys)+len(annoKeys) > 2
					case parent == "annotations" && annoKeys[last]:
						ok = true
					case last == "image" && images:
						ok = true
					case len(p) == 2 && p[0] == "spec" && last == "replicas" && replicas:
						ok = true
					case len(p) >= 2 && p[0] == "metadata" && len(p) >= 3 && p[1] == "annotations" && (last == "patched" || last == "jp"):
						ok = len(patchPaths) > 0
					}
					for _, pp := range patchPaths {
						if pathHasPrefix(p, pp) {
							ok = true
						}
					}
					for _, ep := range edgePaths {
						// reference fields may be rewritten (selector steps compare by position in p only loosely: last key must agree)
						if s, isS := ep[len(ep)-1].(string); isS && s == last {
							ok = true
						}
					}
					// templates / selectors / metadata created on the way to a directive location
					if !ok && (strings.Contains(strings.Join(p, "/"), "template/metadata") || strings.Contains(strings.Join(p, "/"), "jobTemplate/metadata")) &&
						(len(labelKeys)+len(annoKeys) > 2 || len(metaLabelKeys) > 0) {
						ok = true
					}
					if !ok {
						iv, _ := getPath(map[string]interface{}(g.Obj), ipath(p))
						ov, _ := getPath(map[string]interface{}(od), ipath(p))
						cls := "untargeted-field-changed"
						if fmt.Sprint(iv) == fmt.Sprint(ov) && reflect.TypeOf(iv) != reflect.TypeOf(ov) {
							cls = "scalar-type-changed"
						}
						o.fail(cls, fmt.Sprintf("%s %s: field %s changed from %#v to %#v although no directive targets it", g.Kind, g.Name, strings.Join(p, "."), iv, ov), cs, t.Describe(), ov, iv)
					}
				}
			}
		}
		return o.rep
	}
}
