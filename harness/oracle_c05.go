package main

import (
	"fmt"
	"math/rand"
	"os"
	"path/filepath"
	"strings"

	"sigs.k8s.io/kustomize/api/krusty"
	"sigs.k8s.io/kustomize/kyaml/filesys"
)

const canary = "CANARY-7f3a9c"

type c05Field struct {
	name string
	// content of the referenced file given the marker string, and the kustomization snippet referencing path p
	content func(marker string) string
	kust    func(p string) string
}

var c05Fields = []c05Field{
	{"resources", func(m string) string {
		return "apiVersion: v1\nkind: ConfigMap\nmetadata:\n  name: ref\ndata:\n  c: " + m + "\n"
	}, func(p string) string { return "resources:\n- inside.yaml\n- " + p + "\n" }},
	{"patches.path", func(m string) string {
		return "apiVersion: v1\nkind: ConfigMap\nmetadata:\n  name: inside\n  annotations:\n    a: " + m + "\n"
	}, func(p string) string { return "resources:\n- inside.yaml\npatches:\n- path: " + p + "\n" }},
	{"patchesStrategicMerge", func(m string) string {
		return "apiVersion: v1\nkind: ConfigMap\nmetadata:\n  name: inside\n  annotations:\n    a: " + m + "\n"
	}, func(p string) string { return "resources:\n- inside.yaml\npatchesStrategicMerge:\n- " + p + "\n" }},
	{"patchesJson6902.path", func(m string) string {
		return "- op: add\n  path: /metadata/annotations\n  value:\n    a: " + m + "\n"
	}, func(p string) string {
		return "resources:\n- inside.yaml\npatchesJson6902:\n- target: {version: v1, kind: ConfigMap, name: inside}\n  path: " + p + "\n"
	}},
	{"configMapGenerator.files", func(m string) string { return m + "\n" },
		func(p string) string { return "resources:\n- inside.yaml\nconfigMapGenerator:\n- name: g\n  files:\n  - k=" + p + "\n" }},
	{"configMapGenerator.envs", func(m string) string { return "K=" + m + "\n" },
		func(p string) string { return "resources:\n- inside.yaml\nconfigMapGenerator:\n- name: g\n  envs:\n  - " + p + "\n" }},
	{"secretGenerator.files", func(m string) string { return m + "\n" },
		func(p string) string { return "resources:\n- inside.yaml\nsecretGenerator:\n- name: g\n  files:\n  - k=" + p + "\n" }},
	{"configurations", func(m string) string { return "commonLabels:\n- path: metadata/labels\n  create: true\n# " + m + "\nnameReference: [" + m + "\n" },
		func(p string) string { return "resources:\n- inside.yaml\nconfigurations:\n- " + p + "\n" }},
	{"crds", func(m string) string { return "{\"" + m + "\": " },
		func(p string) string { return "resources:\n- inside.yaml\ncrds:\n- " + p + "\n" }},
	{"openapi.path", func(m string) string { return "{\"definitions\": {\"" + m + "\": {\"type\": \"object\"}}}" },
		func(p string) string {
			return "resources:\n- inside.yaml\nopenapi:\n  path: " + p + "\npatches:\n- patch: |\n    apiVersion: v1\n    kind: ConfigMap\n    metadata:\n      name: inside\n      annotations: {x: y}\n"
		}},
	{"replacements.path", func(m string) string {
		return "source: {kind: ConfigMap, name: inside, fieldPath: data.c}\ntargets:\n- select: {kind: ConfigMap, name: inside}\n  fieldPaths: [metadata.annotations." + m + "]\n  options: {create: true}\n"
	}, func(p string) string { return "resources:\n- inside.yaml\nreplacements:\n- path: " + p + "\n" }},
	{"transformers", func(m string) string {
		return "apiVersion: builtin\nkind: LabelTransformer\nmetadata:\n  name: t\nlabels:\n  l: " + m + "\nfieldSpecs:\n- path: metadata/labels\n  create: true\n"
	}, func(p string) string { return "resources:\n- inside.yaml\ntransformers:\n- " + p + "\n" }},
	{"generators", func(m string) string {
		return "apiVersion: builtin\nkind: ConfigMapGenerator\nmetadata:\n  name: gg\nliterals:\n- k=" + m + "\n"
	}, func(p string) string { return "resources:\n- inside.yaml\ngenerators:\n- " + p + "\n" }},
}

func init() {
	oracles["C05"] = func(seed int64, n int, tier, work string) *oracleReport {
		o := newOracleRun("C05", seed)
		segs := []string{".", "..", "sub", "ref.yaml", "link-in", "link-out", "linkdir-out", "linkdir-deep", "root", "outside.yaml", "Root"}
		disk := work != ""
		var diskRoot string
		if disk {
			diskRoot = filepath.Join(work, "c05")
			os.RemoveAll(diskRoot)
		}
		for i, cs := range caseSeeds(seed, n, "C05") {
			r := rand.New(rand.NewSource(cs))
			f := c05Fields[r.Intn(len(c05Fields))]
			// path spelling: a random word over the path alphabet, or one of the classic escapes
			var p string
			switch r.Intn(3) {
			case 0:
				p = pickS(r, []string{"ref.yaml", "./sub/../ref.yaml", "sub/ref.yaml", "../outside.yaml", "sub/../../outside.yaml", "../root/../outside.yaml",
					"../root/ref.yaml", "link-in", "link-out", "linkdir-out/outside.yaml", "../root-evil/ref.yaml", "ABS/outside.yaml", "ABS/root/ref.yaml",
					// absolute and NOT clean: lexically inside the root, but the OS would walk through the link first
					"../Root/ref.yaml", "../ROOT/ref.yaml", "ABS/Root/ref.yaml", "../Root/../root/../Root/ref.yaml",
					"ABS/root/linkdir-deep/../ref.yaml", "ABS/root/sub/../linkdir-deep/../ref.yaml", "linkdir-deep/../ref.yaml", "ABS/root/./sub/../ref.yaml"})
			default:
				k := 1 + r.Intn(4)
				var ws []string
				for j := 0; j < k; j++ {
					ws = append(ws, pickS(r, segs))
				}
				p = strings.Join(ws, "/")
				if r.Intn(4) == 0 {
					p = "ABS/root/" + p // an absolute, uncleaned spelling
				}
			}
			onDisk := disk && r.Intn(2) == 0
			base := "/top"
			var fs filesys.FileSystem
			if onDisk {
				base = filepath.Join(diskRoot, fmt.Sprintf("t%d", i))
				fs = filesys.MakeFsOnDisk()
			} else {
				fs = filesys.MakeFsInMemory()
			}
			p = strings.ReplaceAll(p, "ABS", base)
			root := filepath.Join(base, "root")
			fs.MkdirAll(filepath.Join(root, "sub"))
			fs.MkdirAll(filepath.Join(base, "root-evil"))
			inside := "apiVersion: v1\nkind: ConfigMap\nmetadata:\n  name: inside\ndata:\n  c: in\n"
			fs.WriteFile(filepath.Join(root, "inside.yaml"), []byte(inside))
			fs.WriteFile(filepath.Join(root, "ref.yaml"), []byte(f.content("inside-marker")))
			fs.WriteFile(filepath.Join(root, "sub", "ref.yaml"), []byte(f.content("inside-marker")))
			fs.WriteFile(filepath.Join(base, "outside.yaml"), []byte(f.content(canary)))
			fs.WriteFile(filepath.Join(base, "root-evil", "ref.yaml"), []byte(f.content(canary)))
			// directories whose names differ from the root's by letter case only are other directories
			for _, cv := range []string{"Root", "ROOT"} {
				fs.MkdirAll(filepath.Join(base, cv))
				fs.WriteFile(filepath.Join(base, cv, "ref.yaml"), []byte(f.content(canary)))
			}
			if onDisk {
				os.Symlink(filepath.Join("sub", "ref.yaml"), filepath.Join(root, "link-in"))
				os.Symlink(filepath.Join("..", "outside.yaml"), filepath.Join(root, "link-out"))
				os.Symlink("..", filepath.Join(root, "linkdir-out"))
				// a directory link whose target's PARENT holds a file named like one inside the root
				os.MkdirAll(filepath.Join(base, "outdir", "deep"), 0o755)
				os.WriteFile(filepath.Join(base, "outdir", "ref.yaml"), []byte(f.content(canary)), 0o644)
				os.Symlink(filepath.Join("..", "outdir", "deep"), filepath.Join(root, "linkdir-deep"))
			}
			if onDisk && r.Intn(5) == 0 {
				// ---- a BASE reached through a directory link: the new root is judged after the link is resolved; a root at
				// or above a root in use is a cycle.  (The ancestor has a kustomization of its own that does not come back
				// here, so that even a loader that misses the cycle terminates.)
				os.WriteFile(filepath.Join(base, "kustomization.yaml"), []byte("resources:\n- outside-cm.yaml\n"), 0o644)
				os.WriteFile(filepath.Join(base, "outside-cm.yaml"), []byte("apiVersion: v1\nkind: ConfigMap\nmetadata:\n  name: "+canary+"\n"), 0o644)
				os.MkdirAll(filepath.Join(root, "sub", "inner"), 0o755)
				os.WriteFile(filepath.Join(root, "sub", "inner", "kustomization.yaml"), []byte("resources:\n- cm.yaml\n"), 0o644)
				os.WriteFile(filepath.Join(root, "sub", "inner", "cm.yaml"), []byte("apiVersion: v1\nkind: ConfigMap\nmetadata:\n  name: inner\n"), 0o644)
				os.Symlink(filepath.Join("..", ".."), filepath.Join(root, "sub", "up2"))
				os.Symlink(filepath.Join("sub", "inner"), filepath.Join(root, "link-inner"))
				bp := pickS(r, []string{"linkdir-out", "sub/up2", "linkdir-out/.", "sub/../linkdir-out", "link-inner", "sub/inner", "sub/up2/root/sub/inner", ".."})
				os.WriteFile(filepath.Join(root, "kustomization.yaml"), []byte("resources:\n- inside.yaml\n- "+bp+"\n"), 0o644)
				out, err, pnc := safeBuild(func() (string, error) { return runBuild(fs, root, nil) })
				rd, _ := filepath.EvalSymlinks(filepath.Join(root, bp))
				rr, _ := filepath.EvalSymlinks(root)
				above := rd == rr || strings.HasPrefix(rr, rd+string(filepath.Separator))
				in := map[string]interface{}{"field": "resources(base)", "path": bp, "fs": "disk", "resolves_to": rd}
				o.note(fmt.Sprintf("base-above=%v-ok=%v", above, err == nil && pnc == nil), in)
				if pnc == nil && err == nil && above {
					o.fail("base-at-or-above-root-accepted", fmt.Sprintf("base %q resolves to %s, at or above the root %s in use, and the build succeeds", bp, rd, rr), cs, in, tailStr(out, 300), nil)
				}
				if pnc == nil && err != nil && !above {
					o.fail("valid-base-rejected", fmt.Sprintf("base %q resolves to %s below the root and is rejected: %v", bp, rd, err), cs, in, nil, nil)
				}
				os.RemoveAll(base)
				continue
			}
			if r.Intn(5) == 0 {
				// ---- load HISTORY: the file outside the root was read legitimately — by the sibling kustomization it belongs to —
				// earlier (or later) in the same build; the reference to it from `root` is an escape all the same, whatever any
				// layer of the build has already seen
				evil := filepath.Join(base, "root-evil")
				hp := pickS(r, []string{"../root-evil/ref.yaml", filepath.Join(evil, "ref.yaml"), "sub/../../root-evil/ref.yaml", "../root-evil/./ref.yaml"})
				fs.WriteFile(filepath.Join(evil, "inside.yaml"), []byte(inside))
				fs.WriteFile(filepath.Join(evil, "kustomization.yaml"), []byte(f.kust("ref.yaml")+"namePrefix: evil-\n"))
				fs.WriteFile(filepath.Join(root, "kustomization.yaml"), []byte(f.kust(hp)))
				fs.MkdirAll(filepath.Join(base, "wrap"))
				order := []string{"../root-evil", "../root"}
				if r.Intn(4) == 0 {
					order[0], order[1] = order[1], order[0]
				}
				fs.WriteFile(filepath.Join(base, "wrap", "kustomization.yaml"), []byte("resources:\n- "+order[0]+"\n- "+order[1]+"\n"))
				opt := func(op *krusty.Options) { op.PluginConfig.BpLoadingOptions = 1 }
				_, herr, hpnc := safeBuild(func() (string, error) { return runBuild(fs, filepath.Join(base, "wrap"), opt) })
				// control: the sibling alone builds (otherwise the scenario says nothing for this field)
				_, cerr, _ := safeBuild(func() (string, error) { return runBuild(fs, evil, opt) })
				in := map[string]interface{}{"field": f.name, "path": hp, "fs": map[bool]string{true: "disk", false: "mem"}[onDisk], "scenario": "file-loaded-by-sibling-first", "order": order}
				o.note(fmt.Sprintf("history-%s-sibling-ok=%v-build-ok=%v", f.name, cerr == nil, herr == nil && hpnc == nil), in)
				if hpnc == nil && herr == nil {
					o.fail("escaping-reference-accepted:"+f.name, fmt.Sprintf("field %s with path %q names a file of the sibling kustomization %s outside root %s and the build succeeds (the sibling had loaded it)", f.name, hp, evil, root), cs, in, nil, nil)
				}
				if onDisk {
					os.RemoveAll(base)
				}
				continue
			}
			fs.WriteFile(filepath.Join(root, "kustomization.yaml"), []byte(f.kust(p)))
			out, err, pnc := safeBuild(func() (string, error) {
				return runBuild(fs, root, func(op *krusty.Options) { op.PluginConfig.BpLoadingOptions = 1 })
			})
			// independent resolver: where does p point after resolving `..` and links?
			full := p
			if !filepath.IsAbs(p) {
				full = filepath.Join(root, p)
			}
			full = filepath.Clean(full)
			resolved := full
			if onDisk {
				if rp, e := filepath.EvalSymlinks(full); e == nil {
					resolved = rp
				}
				if rr, e := filepath.EvalSymlinks(root); e == nil {
					root = rr
				}
			}
			insideRoot := resolved == root || strings.HasPrefix(resolved, root+string(filepath.Separator))
			mode := "mem"
			if onDisk {
				mode = "disk"
			}
			in := map[string]interface{}{"field": f.name, "path": p, "fs": mode}
			txt := out
			if err != nil {
				txt = err.Error()
			}
			if pnc != nil {
				o.note("panic", in)
				if os.Getenv("VERIF_DEBUG_ERR") != "" {
					fmt.Fprintln(realStderr, "PANIC", in, pnc)
				}
				continue
			}
			cls := fmt.Sprintf("%s-%v-%v", mode, insideRoot, err == nil)
			o.note(cls, in)
			if strings.Contains(txt, canary) {
				o.fail("content-outside-root-revealed:"+f.name, fmt.Sprintf("field %s with path %q: content of a file outside the root appears in the %s", f.name, p, map[bool]string{true: "output", false: "error text"}[err == nil]), cs, in, tailStr(txt, 400), nil)
			}
			if !insideRoot && err == nil {
				// the target is outside the root: the build must fail (unless the path does not name a loadable file at all
				// and the field tolerates that — none of these fields does)
				o.fail("escaping-reference-accepted:"+f.name, fmt.Sprintf("field %s with path %q resolves to %s outside root %s and the build succeeds", f.name, p, resolved, root), cs, in, nil, nil)
			}
			if onDisk {
				os.RemoveAll(base)
			}
		}
		if disk {
			os.RemoveAll(diskRoot)
		}
		return o.rep
	}
}
