package main

import (
	"errors"
	"math/rand"
	"strings"

	"sigs.k8s.io/kustomize/kyaml/yaml"
)

func classifyKyamlErr(err error) string {
	var ik *yaml.InvalidNodeKindError
	if errors.As(err, &ik) || strings.Contains(err.Error(), "wrong node kind") {
		return "kind"
	}
	return "arg"
}

func fnsResult(doc *yaml.RNode, res *yaml.RNode, err error) interface{} {
	if err != nil {
		return map[string]interface{}{"err": classifyKyamlErr(err)}
	}
	return map[string]interface{}{"ok": map[string]interface{}{"doc": rnodeToWire(doc), "res": rnodeToWire(res)}}
}

var pathParts = []string{"a", "b", "c", "name", "k", "[name=x]", "[name=app]", "[k=1]", "[=x]", "0", "1", "-", " a ", "", "*", "[x]", "-1", "[a=]", "2"}

// genPathFor walks the document so that most paths are valid for it (mostly-valid stream); with some
// probability it deviates (absent key, odd part) or extends beyond a leaf (exercises creation).
func genPathFor(r *rand.Rand, doc interface{}, max int) []string {
	var p []string
	cur := doc
	n := 1 + r.Intn(max)
	for i := 0; i < n; i++ {
		if r.Intn(12) == 0 {
			p = append(p, pathParts[r.Intn(len(pathParts))])
			cur = nil
			continue
		}
		a, _ := cur.([]interface{})
		switch {
		case a != nil && a[0] == "m" && len(a[2].([]interface{})) > 0 && r.Intn(5) != 0:
			fs := a[2].([]interface{})
			f := fs[r.Intn(len(fs))].([]interface{})
			p = append(p, f[0].(string))
			cur = f[1]
		case a != nil && a[0] == "q":
			is := a[2].([]interface{})
			switch k := r.Intn(6); {
			case k == 0 || len(is) == 0:
				p = append(p, pick(r, []string{"[name=x]", "[name=app]", "[name=new]", "[=x]", "-", "0", "1"}))
				cur = nil
			case k == 1:
				p = append(p, "-")
				cur = is[len(is)-1]
			case k == 2:
				j := r.Intn(len(is))
				p = append(p, []string{"0", "1", "2", "3", "4"}[j%5])
				if j < 5 {
					cur = is[j]
				}
			default:
				j := r.Intn(len(is))
				e, _ := is[j].([]interface{})
				cur = is[j]
				if e != nil && e[0] == "m" {
					nm := ""
					for _, f := range e[2].([]interface{}) {
						ff := f.([]interface{})
						if v, ok := ff[1].([]interface{}); ok && v[0] == "s" && ff[0] == "name" {
							nm = v[2].(string)
						}
					}
					p = append(p, "[name="+nm+"]")
				} else if e != nil && e[0] == "s" {
					p = append(p, "[="+e[2].(string)+"]")
				} else {
					p = append(p, "0")
				}
			}
		default:
			p = append(p, pick(r, keyAlphabet))
			cur = nil
		}
	}
	return p
}

func genPath(r *rand.Rand, max int) []string {
	n := 1 + r.Intn(max)
	p := make([]string, 0, n)
	for i := 0; i < n; i++ {
		// bias to plain keys and selectors; the odd parts form the malformed stream
		if r.Intn(10) < 8 {
			p = append(p, pathParts[r.Intn(12)])
		} else {
			p = append(p, pathParts[r.Intn(len(pathParts))])
		}
	}
	return p
}

func init() {
	components["fns.lookup"] = func(r *rand.Rand, tier string) (map[string]interface{}, func() (interface{}, string)) {
		doc := genNode(r, depthFor(tier), r.Intn(8) == 0)
		if r.Intn(5) != 0 {
			doc = genMap(r, depthFor(tier), r.Intn(8) == 0)
		}
		path := genPathFor(r, doc, 4)
		if r.Intn(10) == 0 {
			path = genPath(r, 4)
		}
		create := 0
		if r.Intn(2) == 0 {
			create = 1 + r.Intn(3)
		}
		style := 0
		if r.Intn(6) == 0 {
			style = int(yaml.DoubleQuotedStyle)
		}
		args := map[string]interface{}{"doc": doc, "path": path, "create": create, "style": style, "ns": nsGraph(doc, path)}
		return args, func() (interface{}, string) {
			rn := yaml.NewRNode(wireToNode(doc))
			kinds := map[int]yaml.Kind{0: 0, 1: yaml.ScalarNode, 2: yaml.MappingNode, 3: yaml.SequenceNode}
			res, err := rn.Pipe(yaml.PathGetter{Path: append([]string{}, path...), Create: kinds[create], Style: yaml.Style(style)})
			class := "found"
			switch {
			case err != nil:
				class = "err-" + classifyKyamlErr(err)
			case res == nil:
				class = "none"
			case create != 0:
				class = "found-create"
			}
			return fnsResult(rn, res, err), class
		}
	}
	// fns.lookup2: ONE PathGetter value (one path slice, blank parts included) applied twice, as a filter held in a
	// variable is: the second application must behave as a fresh lookup of the same path on the document the first
	// one left, and the caller's path slice must come back as it went in.
	components["fns.lookup2"] = func(r *rand.Rand, tier string) (map[string]interface{}, func() (interface{}, string)) {
		doc := genMap(r, depthFor(tier), false)
		base := genPathFor(r, doc, 4)
		var path []string
		for _, p := range base {
			if r.Intn(3) == 0 {
				path = append(path, pickS(r, []string{"", " ", "  "}))
			}
			path = append(path, p)
		}
		if r.Intn(4) == 0 {
			path = append(path, "")
		}
		create := 0
		if r.Intn(3) != 0 {
			create = 1 + r.Intn(3)
		}
		args := map[string]interface{}{"doc": doc, "path": path, "create": create, "style": 0, "ns": nsGraph(doc, path)}
		return args, func() (interface{}, string) {
			rn := yaml.NewRNode(wireToNode(doc))
			kinds := map[int]yaml.Kind{0: 0, 1: yaml.ScalarNode, 2: yaml.MappingNode, 3: yaml.SequenceNode}
			held := append([]string{}, path...)
			pg := yaml.PathGetter{Path: held, Create: kinds[create]}
			if _, err := rn.Pipe(pg); err != nil {
				return map[string]interface{}{"err": classifyKyamlErr(err)}, "err1-" + classifyKyamlErr(err)
			}
			res, err := rn.Pipe(pg)
			if err != nil {
				return map[string]interface{}{"err": "second:" + classifyKyamlErr(err)}, "err2-" + classifyKyamlErr(err)
			}
			class := "found"
			if res == nil {
				class = "none"
			}
			ps := []interface{}{}
			for _, x := range held {
				ps = append(ps, x)
			}
			return map[string]interface{}{"ok": map[string]interface{}{"doc": rnodeToWire(rn), "res": rnodeToWire(res), "path": ps}}, class
		}
	}
	components["fns.setfield"] = func(r *rand.Rand, tier string) (map[string]interface{}, func() (interface{}, string)) {
		var doc interface{} = genMap(r, depthFor(tier), r.Intn(6) == 0)
		if r.Intn(12) == 0 {
			doc = genNode(r, 2, false)
			if a := doc.([]interface{}); a[0] == "s" && a[1] == "!!null" {
				doc = genMap(r, 1, false) // null receiver is outside the model (content appended to a scalar)
			}
		}
		name := pick(r, keyAlphabet)
		var val interface{}
		if r.Intn(8) != 0 {
			val = genNode(r, 2, false)
		}
		keep := r.Intn(4) == 0
		ovr := r.Intn(4) == 0
		args := map[string]interface{}{"doc": doc, "name": name, "value": val, "keep": keep, "override": ovr, "ns": nsGraph(doc, val)}
		return args, func() (interface{}, string) {
			rn := yaml.NewRNode(wireToNode(doc))
			var v *yaml.RNode
			if val != nil {
				v = yaml.NewRNode(wireToNode(val))
				v.ShouldKeep = keep
			}
			res, err := rn.Pipe(yaml.FieldSetter{Name: name, Value: v, OverrideStyle: ovr})
			class := "set"
			if err != nil {
				class = "err-" + classifyKyamlErr(err)
			} else if res == nil {
				class = "cleared-or-none"
			}
			return fnsResult(rn, res, err), class
		}
	}
	components["fns.clear"] = func(r *rand.Rand, tier string) (map[string]interface{}, func() (interface{}, string)) {
		var doc interface{} = genMap(r, depthFor(tier), r.Intn(3) == 0)
		if r.Intn(12) == 0 {
			doc = genNode(r, 2, false)
		}
		name := pick(r, keyAlphabet)
		ife := r.Intn(3) == 0
		args := map[string]interface{}{"doc": doc, "name": name, "ifEmpty": ife}
		return args, func() (interface{}, string) {
			rn := yaml.NewRNode(wireToNode(doc))
			res, err := rn.Pipe(yaml.FieldClearer{Name: name, IfEmpty: ife})
			class := "cleared"
			if err != nil {
				class = "err-" + classifyKyamlErr(err)
			} else if res == nil {
				class = "absent"
			}
			return fnsResult(rn, res, err), class
		}
	}
	components["fns.setelem"] = func(r *rand.Rand, tier string) (map[string]interface{}, func() (interface{}, string)) {
		var doc interface{} = genSeq(r, depthFor(tier), false)
		if r.Intn(12) == 0 {
			doc = genNode(r, 2, false)
			if a := doc.([]interface{}); a[0] == "s" && a[1] == "!!null" {
				doc = genSeq(r, 1, false)
			}
		}
		var keys, vals []string
		var elem interface{}
		switch r.Intn(4) {
		case 0: // scalar element
			keys, vals = []string{""}, []string{pick(r, []string{"x", "y", "1"})}
			if r.Intn(3) != 0 {
				elem = []interface{}{"s", "!!str", pick(r, []string{"x", "z"}), 0}
			}
		case 1: // two keys
			keys, vals = []string{"name", "k"}, []string{pick(r, []string{"x", "app"}), pick(r, []string{"1", "x"})}
			if r.Intn(3) != 0 {
				elem = genMap(r, 2, false)
			}
		default:
			keys, vals = []string{"name"}, []string{pick(r, []string{"x", "y", "app", "myapp2"})}
			if r.Intn(3) != 0 {
				m := genMap(r, 2, false).([]interface{})
				m[2] = append([]interface{}{[]interface{}{"name", []interface{}{"s", "!!str", vals[0], 0}}}, m[2].([]interface{})...)
				elem = m
			}
		}
		args := map[string]interface{}{"doc": doc, "keys": keys, "values": vals, "elem": elem}
		return args, func() (interface{}, string) {
			rn := yaml.NewRNode(wireToNode(doc))
			var e *yaml.Node
			if elem != nil {
				e = wireToNode(elem)
			}
			res, err := rn.Pipe(yaml.ElementSetter{Keys: keys, Values: vals, Element: e})
			class := "set"
			if err != nil {
				class = "err-" + classifyKyamlErr(err)
			} else if res == nil {
				class = "deleted-or-none"
			}
			return fnsResult(rn, res, err), class
		}
	}
}
