package main

import (
	"encoding/json"
	"fmt"

	"sigs.k8s.io/kustomize/kyaml/yaml"
)

// Wire format of DESIGN §2.1: ["s",tag,value,style] | ["m",style,[[k,node]...]] | ["q",style,[node...]] ; null = nil.

func shortTag(t string) string {
	const long = "tag:yaml.org,2002:"
	if len(t) > len(long) && t[:len(long)] == long {
		return "!!" + t[len(long):]
	}
	return t
}

// nodeToWire serialises a yaml.Node (aliases followed, documents unwrapped). Styles are the raw go-yaml bitmask.
func nodeToWire(n *yaml.Node) interface{} {
	if n == nil {
		return nil
	}
	switch n.Kind {
	case yaml.DocumentNode:
		if len(n.Content) == 0 {
			return nil
		}
		return nodeToWire(n.Content[0])
	case yaml.AliasNode:
		return nodeToWire(n.Alias)
	case yaml.MappingNode:
		fs := make([]interface{}, 0, len(n.Content)/2)
		for i := 0; i+1 < len(n.Content); i += 2 {
			fs = append(fs, []interface{}{n.Content[i].Value, nodeToWire(n.Content[i+1])})
		}
		return []interface{}{"m", int(n.Style), fs}
	case yaml.SequenceNode:
		is := make([]interface{}, 0, len(n.Content))
		for _, c := range n.Content {
			is = append(is, nodeToWire(c))
		}
		return []interface{}{"q", int(n.Style), is}
	default: // scalar (Kind 0 zero nodes are scalars with empty everything)
		return []interface{}{"s", shortTag(n.Tag), n.Value, int(n.Style)}
	}
}

func rnodeToWire(rn *yaml.RNode) interface{} {
	if rn == nil || rn.YNode() == nil {
		return nil
	}
	return nodeToWire(rn.YNode())
}

// wireToNode builds a fresh yaml.Node tree from the wire form.
func wireToNode(w interface{}) *yaml.Node {
	if w == nil {
		return nil
	}
	a := w.([]interface{})
	switch a[0].(string) {
	case "s":
		return &yaml.Node{Kind: yaml.ScalarNode, Tag: a[1].(string), Value: a[2].(string), Style: yaml.Style(toInt(a[3]))}
	case "m":
		n := &yaml.Node{Kind: yaml.MappingNode, Style: yaml.Style(toInt(a[1]))}
		for _, kv := range a[2].([]interface{}) {
			p := kv.([]interface{})
			n.Content = append(n.Content, &yaml.Node{Kind: yaml.ScalarNode, Tag: "!!str", Value: p[0].(string)}, wireToNode(p[1]))
		}
		return n
	case "q":
		n := &yaml.Node{Kind: yaml.SequenceNode, Style: yaml.Style(toInt(a[1]))}
		for _, c := range a[2].([]interface{}) {
			n.Content = append(n.Content, wireToNode(c))
		}
		return n
	}
	panic(fmt.Sprintf("bad wire node %v", w))
}

func toInt(x interface{}) int {
	switch v := x.(type) {
	case int:
		return v
	case float64:
		return int(v)
	case json.Number:
		i, _ := v.Int64()
		return int(i)
	}
	panic(fmt.Sprintf("toInt %T", x))
}

// canon re-marshals through JSON so that Go-side and Lean-side values compare with reflect.DeepEqual.
func canon(v interface{}) interface{} {
	b, err := json.Marshal(v)
	if err != nil {
		panic(err)
	}
	var out interface{}
	if err := json.Unmarshal(b, &out); err != nil {
		panic(err)
	}
	return out
}

func jstr(v interface{}) string {
	b, _ := json.Marshal(v)
	return string(b)
}
