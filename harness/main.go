package main

import (
	"encoding/json"
	"flag"
	"fmt"
	"io"
	"log"
	"math/rand"
	"os"
	"strings"
)

func writeJSON(path string, v interface{}) {
	b, err := json.MarshalIndent(v, "", " ")
	if err != nil {
		panic(err)
	}
	if path == "" || path == "-" {
		os.Stdout.Write(b)
		return
	}
	if err := os.WriteFile(path, b, 0o644); err != nil {
		panic(err)
	}
}

func main() {
	log.SetOutput(io.Discard)
	// kustomize prints deprecation warnings straight to os.Stderr; keep our own handle and silence the rest
	realStderr = os.Stderr
	if dn, err := os.OpenFile(os.DevNull, os.O_WRONLY, 0); err == nil && os.Getenv("VERIF_KEEP_STDERR") == "" {
		os.Stderr = dn
	}
	if len(os.Args) < 2 {
		fmt.Fprintln(realStderr, "usage: vh corr|oracle|list ...")
		os.Exit(2)
	}
	switch os.Args[1] {
	case "corr":
		fs := flag.NewFlagSet("corr", flag.ExitOnError)
		comps := fs.String("comps", "", "comma-separated components")
		seed := fs.Int64("seed", 1, "seed")
		n := fs.Int("n", 1000, "cases per component")
		tier := fs.String("tier", "quick", "tier")
		drv := fs.String("drv", "", "path of kustdrv")
		out := fs.String("out", "-", "report file")
		fs.Parse(os.Args[2:])
		rep, err := runCorr(strings.Split(*comps, ","), *seed, *n, *tier, *drv)
		if err != nil {
			fmt.Fprintln(realStderr, "corr:", err)
			os.Exit(3)
		}
		writeJSON(*out, rep)
	case "oracle":
		fs := flag.NewFlagSet("oracle", flag.ExitOnError)
		prop := fs.String("prop", "", "property id")
		seed := fs.Int64("seed", 1, "seed")
		n := fs.Int("n", 200, "cases")
		tier := fs.String("tier", "quick", "tier")
		out := fs.String("out", "-", "report file")
		work := fs.String("work", "", "scratch directory")
		fs.Parse(os.Args[2:])
		o, ok := oracles[*prop]
		if !ok {
			fmt.Fprintln(realStderr, "no oracle for", *prop)
			os.Exit(3)
		}
		rep := o(*seed, *n, *tier, *work)
		writeJSON(*out, rep)
	case "case":
		// vh case --comp X --case-seed S : print the driver line and the Go result of one generated case
		fs := flag.NewFlagSet("case", flag.ExitOnError)
		comp := fs.String("comp", "", "")
		cs := fs.Int64("case-seed", 0, "")
		tier := fs.String("tier", "quick", "")
		fs.Parse(os.Args[2:])
		args, run := components[*comp](rand.New(rand.NewSource(*cs)), *tier)
		g := guard(func() interface{} { o, _ := run(); return o })
		b, _ := json.Marshal(map[string]interface{}{"id": 1, "comp": *comp, "args": canon(args)})
		fmt.Println(string(b))
		b2, _ := json.Marshal(canon(g))
		fmt.Println(string(b2))
	case "list":
		for k := range components {
			fmt.Println(k)
		}
	default:
		if f, ok := extraCmds[os.Args[1]]; ok {
			f(os.Args[2:])
			return
		}
		fmt.Fprintln(realStderr, "unknown command", os.Args[1])
		os.Exit(2)
	}
}

var realStderr *os.File

var extraCmds = map[string]func(args []string){}

// ---- oracle framework: direct checks of a property on the real code (the search for a failing input) ----

type failure struct {
	Class string      `json:"class"` // recogniser name of the reason (matched against known_findings.jsonl)
	What  string      `json:"what"`  // one line
	Seed  int64       `json:"seed"`
	Input interface{} `json:"input"` // the concrete failing input (replayable)
	Got   interface{} `json:"got,omitempty"`
	Want  interface{} `json:"want,omitempty"`
}

type oracleReport struct {
	Prop     string         `json:"prop"`
	Seed     int64          `json:"seed"`
	Cases    int            `json:"cases"`
	Distinct int            `json:"distinct"`
	Classes  map[string]int `json:"classes"`
	Failures []failure      `json:"failures"`
	Samples  []interface{}  `json:"samples"`
	Notes    []string       `json:"notes,omitempty"`
}

var oracles = map[string]func(seed int64, n int, tier, work string) *oracleReport{}
