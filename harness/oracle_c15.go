package main

import (
	"encoding/json"
	"fmt"
	"math/rand"
	"reflect"
	"strings"

	"sigs.k8s.io/kustomize/kyaml/yaml"
	"sigs.k8s.io/kustomize/kyaml/yaml/merge3"
)

func rnodeJSON(rn *yaml.RNode) interface{} {
	if rn == nil {
		return nil
	}
	b, err := rn.MarshalJSON()
	if err != nil {
		return "MARSHAL-ERROR:" + err.Error()
	}
	var v interface{}
	json.Unmarshal(b, &v)
	return v
}

func stripNulls(w interface{}) interface{} {
	a, ok := w.([]interface{})
	if !ok {
		return w
	}
	switch a[0] {
	case "m":
		var nf []interface{}
		for _, f := range a[2].([]interface{}) {
			ff := f.([]interface{})
			if c, ok := ff[1].([]interface{}); ok && c[0] == "s" && c[1] == "!!null" {
				continue
			}
			nf = append(nf, []interface{}{ff[0], stripNulls(ff[1])})
		}
		if nf == nil {
			nf = []interface{}{}
		}
		return []interface{}{"m", a[1], nf}
	case "q":
		var ni []interface{}
		for _, e := range a[2].([]interface{}) {
			ni = append(ni, stripNulls(e))
		}
		if ni == nil {
			ni = []interface{}{}
		}
		return []interface{}{"q", a[1], ni}
	}
	return w
}

// classifyM3: why does got differ from want?
func classifyM3(got, want interface{}) string {
	var dp [][]string
	diffPaths(want, got, nil, &dp)
	if len(dp) == 0 {
		return ""
	}
	empties, types, other := 0, 0, 0
	for _, p := range dp {
		g, gok := getPath(got, ipathIdx(p))
		w, wok := getPath(want, ipathIdx(p))
		switch {
		case gok && !wok && isEmptyContainer(g):
			empties++
		case gok && wok && fmt.Sprint(g) == fmt.Sprint(w) && reflect.TypeOf(g) != reflect.TypeOf(w):
			types++
		default:
			other++
		}
	}
	switch {
	case other > 0:
		return "law-violated"
	case empties > 0 && types == 0:
		return "one-sided-container-deletion-leaves-empty"
	case types > 0 && empties == 0:
		return "scalar-type-not-updated"
	default:
		return "one-sided-container-deletion-leaves-empty+scalar-type-not-updated"
	}
}

// isEmptyContainer: {} or [] or a map all of whose values are (recursively) such hollow containers — what is left
// of a deleted container subtree.
func isEmptyContainer(v interface{}) bool {
	switch x := v.(type) {
	case map[string]interface{}:
		for _, c := range x {
			if !isEmptyContainer(c) {
				return false
			}
		}
		return true
	case []interface{}:
		return len(x) == 0
	}
	return false
}

func ipathIdx(p []string) []interface{} {
	out := make([]interface{}, len(p))
	for i, s := range p {
		var n int
		if _, err := fmt.Sscanf(s, "%d", &n); err == nil && fmt.Sprint(n) == s {
			out[i] = n
		} else {
			out[i] = s
		}
	}
	return out
}

func init() {
	oracles["C15"] = func(seed int64, n int, tier, work string) *oracleReport {
		o := newOracleRun("C15", seed)
		for _, cs := range caseSeeds(seed, n, "C15") {
			r := rand.New(rand.NewSource(cs))
			orig := stripNulls(genObject(r, "MyKind", "example.com/v1"))
			edited := deepCopyW(orig)
			editObject(r, edited, 0, false)
			edited = stripNulls(edited)
			// type-changing edit: a quoted number becomes a number (or back)
			if r.Intn(4) == 0 {
				wSet(wGet(edited, "metadata"), "ver", wS("!!int", "1"))
				wSet(wGet(orig, "metadata"), "ver", []interface{}{"s", "!!str", "1", int(yaml.DoubleQuotedStyle)})
			}
			// in half of the cases arguments that are the same document are the same OBJECT (merge3(d,d,d) written as
			// Merge(d, d, d)): the laws do not care how the caller holds its documents
			shared := r.Intn(2) == 0
			run := func(d, og, u interface{}) (interface{}, error) {
				dn, ogn, un := optRNode(d), optRNode(og), optRNode(u)
				if shared {
					if reflect.DeepEqual(og, d) {
						ogn = dn
					}
					if reflect.DeepEqual(u, og) {
						un = ogn
					} else if reflect.DeepEqual(u, d) {
						un = dn
					}
				}
				res, err := merge3.Merge(dn, ogn, un)
				if err != nil {
					return nil, err
				}
				return rnodeJSON(res), nil
			}
			in := map[string]interface{}{"orig": orig, "edited": edited}
			// law 1: upstream unchanged
			if got, err := run(edited, orig, orig); err == nil {
				want := rnodeJSON(optRNode(edited))
				o.note("law1", in)
				if c := classifyM3(got, want); c != "" {
					o.fail("law1:"+c, "merge3(l,o,o) != l", cs, in, got, want)
				}
			} else {
				o.note("law1-err:"+strings.SplitN(err.Error(), ":", 2)[0], in)
			}
			// law 2: local unchanged
			if got, err := run(orig, orig, edited); err == nil {
				want := rnodeJSON(optRNode(edited))
				o.note("law2", in)
				if c := classifyM3(got, want); c != "" {
					o.fail("law2:"+c, "merge3(o,o,u) != u", cs, in, got, want)
				}
			} else {
				o.note("law2-err:"+strings.SplitN(err.Error(), ":", 2)[0], in)
			}
			// law 3
			if got, err := run(edited, edited, edited); err == nil {
				want := rnodeJSON(optRNode(edited))
				o.note("law3", in)
				if c := classifyM3(got, want); c != "" {
					o.fail("law3:"+c, "merge3(d,d,d) != d", cs, in, got, want)
				}
			}
		}
		return o.rep
	}
}
