package main

import (
	"fmt"
	"math/rand"
	"strings"

	"sigs.k8s.io/kustomize/api/filters/nameref"
	"sigs.k8s.io/kustomize/api/resmap"
	"sigs.k8s.io/kustomize/api/resource"
	"sigs.k8s.io/kustomize/api/types"
	"sigs.k8s.io/kustomize/kyaml/resid"
	"sigs.k8s.io/kustomize/kyaml/yaml"
)

// nameref.select: the referent selection of the name-reference filter on a referrer and a set of candidates with
// arbitrary rename histories (previous ids, accumulated prefixes/suffixes), through the public nameref.Filter.

type nrCand struct {
	w        wid
	prev     [][3]string // kind, name, effective namespace — the three CSV annotations
	pre, suf []string
}

func (c nrCand) wire() map[string]interface{} {
	m := c.w.json()
	pv := []interface{}{}
	for _, p := range c.prev {
		pv = append(pv, []interface{}{p[0], p[1], p[2]})
	}
	m["prev"], m["prefixes"], m["suffixes"] = pv, fixStrs(c.pre), fixStrs(c.suf)
	return m
}

func (c nrCand) resource(extra map[string]interface{}) (*resource.Resource, error) {
	an := map[string]interface{}{}
	if len(c.prev) > 0 {
		var ks, ns, nss []string
		for _, p := range c.prev {
			ks, ns, nss = append(ks, p[0]), append(ns, p[1]), append(nss, p[2])
		}
		an["internal.config.kubernetes.io/previousKinds"] = strings.Join(ks, ",")
		an["internal.config.kubernetes.io/previousNames"] = strings.Join(ns, ",")
		an["internal.config.kubernetes.io/previousNamespaces"] = strings.Join(nss, ",")
	}
	if len(c.pre) > 0 {
		an["internal.config.kubernetes.io/prefixes"] = strings.Join(c.pre, ",")
	}
	if len(c.suf) > 0 {
		an["internal.config.kubernetes.io/suffixes"] = strings.Join(c.suf, ",")
	}
	md := map[string]interface{}{"name": c.w.Name}
	if c.w.NS != "" {
		md["namespace"] = c.w.NS
	}
	if len(an) > 0 {
		md["annotations"] = an
	}
	o := map[string]interface{}{"apiVersion": c.w.apiVersion(), "kind": c.w.Kind, "metadata": md}
	for k, v := range extra {
		o[k] = v
	}
	b, _ := yaml.Marshal(o)
	return rf().FromBytes(b)
}

func init() {
	components["nameref.select"] = func(r *rand.Rand, tier string) (map[string]interface{}, func() (interface{}, string)) {
		affix := func() []string {
			var l []string
			for i := r.Intn(3); i > 0; i-- {
				l = append(l, pickS(r, []string{"a-", "b-", "x"}))
			}
			return l
		}
		// original names, some of which ARE what another resource is called after a prefix or suffix (an intermediate name of one
		// resource beside the original name of another)
		names := []string{"settings", "cfg", "settings", "a-settings", "xcfg", "settings-s", "settings"}
		nss := []string{"", "", "default", "ns1"}
		oldName := pickS(r, names)
		roleMode := r.Intn(5) == 0
		tk := [][3]string{{"", "v1", "ConfigMap"}, {"", "v1", "Secret"}, {"", "v1", "ServiceAccount"}}[r.Intn(3)]
		if roleMode {
			tk = [][3]string{{"rbac.authorization.k8s.io", "v1", "Role"}, {"rbac.authorization.k8s.io", "v1", "ClusterRole"}}[r.Intn(2)]
		}
		target := resid.Gvk{Group: tk[0], Version: tk[1], Kind: tk[2]}
		if r.Intn(3) == 0 {
			target.Version = "" // the rule table usually leaves the version open
		}
		// referrer
		ref := nrCand{w: wid{"apps", "v1", "Deployment", "web", pickS(r, nss)}, pre: affix(), suf: affix()}
		path := "spec/ref"
		extra := map[string]interface{}{"spec": map[string]interface{}{"ref": oldName}}
		var roleRef interface{}
		if roleMode {
			ref.w = wid{"rbac.authorization.k8s.io", "v1", pickS(r, []string{"RoleBinding", "ClusterRoleBinding"}), "rb", pickS(r, nss)}
			path = "roleRef/name"
			rk := pickS(r, []string{"Role", "ClusterRole"})
			extra = map[string]interface{}{"roleRef": map[string]interface{}{"apiGroup": "rbac.authorization.k8s.io", "kind": rk, "name": oldName}}
			roleRef = map[string]interface{}{"group": "rbac.authorization.k8s.io", "kind": rk}
		}
		// candidates: some of the target kind, some of another, with rename histories
		var cands []nrCand
		for i := 0; i < 1+r.Intn(4); i++ {
			k := tk
			if r.Intn(4) == 0 {
				k = [][3]string{{"", "v1", "ConfigMap"}, {"", "v1", "Secret"}, {"rbac.authorization.k8s.io", "v1", "Role"}, {"rbac.authorization.k8s.io", "v1", "ClusterRole"}}[r.Intn(4)]
			}
			ns := pickS(r, nss)
			orig := pickS(r, names)
			c := nrCand{w: wid{k[0], k[1], k[2], orig, ns}}
			// history: each step records the id before the step, then renames
			cur := orig
			eff := ns
			if eff == "" {
				eff = "default"
			}
			if k[2] == "ClusterRole" {
				eff = "_non_namespaceable_"
			}
			for st := r.Intn(3); st > 0; st-- {
				c.prev = append(c.prev, [3]string{k[2], cur, eff})
				if r.Intn(2) == 0 {
					p := pickS(r, []string{"a-", "b-", "x"})
					cur = p + cur
					c.pre = append(c.pre, p)
				} else {
					sfx := pickS(r, []string{"-s", "z"})
					cur += sfx
					c.suf = append(c.suf, sfx)
				}
			}
			c.w.Name = cur
			if r.Intn(6) == 0 {
				c.pre, c.suf = ref.pre, ref.suf // same context as the referrer
			}
			dup := false
			for _, o := range cands {
				if o.w == c.w {
					dup = true
				}
			}
			if !dup {
				cands = append(cands, c)
			}
		}
		var wc []interface{}
		ws := []wid{ref.w}
		for _, c := range cands {
			wc = append(wc, c.wire())
			ws = append(ws, c.w)
		}
		args := map[string]interface{}{"referrer": ref.wire(), "target": map[string]interface{}{"group": target.Group, "version": target.Version, "kind": target.Kind},
			"roleRef": roleRef, "oldName": oldName, "cands": wc, "cs": csGraph(ws...)}
		return args, func() (interface{}, string) {
			refRes, err := ref.resource(extra)
			if err != nil {
				return map[string]interface{}{"err": "load"}, "err-load"
			}
			m := resmap.New()
			for _, c := range cands {
				res, err := c.resource(nil)
				if err != nil {
					return map[string]interface{}{"err": "load"}, "err-load"
				}
				if err := m.Append(res); err != nil {
					return map[string]interface{}{"err": "unmodelled"}, "skip-collision"
				}
			}
			f := nameref.Filter{Referrer: refRes, NameFieldToUpdate: types.FieldSpec{Path: path}, ReferralTarget: target, ReferralCandidates: m}
			if err := refRes.ApplyFilter(f); err != nil {
				if strings.Contains(err.Error(), "multiple possible referrals") {
					return map[string]interface{}{"err": "multiple"}, "multiple"
				}
				return map[string]interface{}{"err": "other:" + err.Error()}, "err-other"
			}
			fld := "spec.ref"
			if roleMode {
				fld = "roleRef.name"
			}
			v, _ := refRes.GetString(fld)
			cl := "unchanged"
			if v != oldName {
				cl = "rewritten"
			}
			return map[string]interface{}{"ok": v}, cl
		}
	}
}

// res.smpatch: what a strategic-merge patch does to the identity of its target (kind, name, namespace, previous-id
// bookkeeping) under the four combinations of allowNameChange / allowKindChange — Resource.ApplySmPatch against
// Kust.SmPatchId.apply.
func init() {
	components["res.smpatch"] = func(r *rand.Rand, tier string) (map[string]interface{}, func() (interface{}, string)) {
		kinds := []string{"StatefulSet", "Deployment", "DaemonSet"}
		k := pickS(r, kinds)
		ns := pickS(r, []string{"", "", "default", "ns1"})
		orig := pickS(r, []string{"web", "app"})
		c := nrCand{w: wid{"apps", "v1", k, orig, ns}}
		cur := orig
		eff := ns
		if eff == "" {
			eff = "default"
		}
		for st := r.Intn(3); st > 0; st-- {
			c.prev = append(c.prev, [3]string{k, cur, eff})
			if r.Intn(2) == 0 {
				cur = "p-" + cur
				c.pre = append(c.pre, "p-")
			} else {
				cur += "-s"
				c.suf = append(c.suf, "-s")
			}
		}
		c.w.Name = cur
		pk := pickS(r, kinds)
		pn := pickS(r, []string{cur, "not-important", "other", orig})
		pns := pickS(r, []string{"", ns, "elsewhere"})
		allowName, allowKind := r.Intn(2) == 0, r.Intn(2) == 0
		args := map[string]interface{}{"cs": csGraph(c.w), "res": c.wire(),
			"patch": map[string]interface{}{"kind": pk, "name": pn, "ns": pns, "allowName": allowName, "allowKind": allowKind}}
		return args, func() (interface{}, string) {
			res, err := c.resource(map[string]interface{}{"spec": map[string]interface{}{"replicas": 1}})
			if err != nil {
				return map[string]interface{}{"err": "load"}, "err-load"
			}
			md := map[string]interface{}{"name": pn}
			if pns != "" {
				md["namespace"] = pns
			}
			patch, err := rf().FromMap(map[string]interface{}{"apiVersion": "apps/v1", "kind": pk, "metadata": md, "spec": map[string]interface{}{"replicas": 3}})
			if err != nil {
				return map[string]interface{}{"err": "load"}, "err-load"
			}
			if allowName {
				patch.AllowNameChange()
			}
			if allowKind {
				patch.AllowKindChange()
			}
			if err := res.ApplySmPatch(patch); err != nil {
				return map[string]interface{}{"err": "other:" + err.Error()}, "err"
			}
			var prev []wid
			for _, id := range res.PrevIds() {
				prev = append(prev, widOf(id))
			}
			return map[string]interface{}{"ok": map[string]interface{}{"cur": widOf(res.CurId()).json(), "prev": widList(prev),
				"prefixes": csvAnno(res, "internal.config.kubernetes.io/prefixes"), "suffixes": csvAnno(res, "internal.config.kubernetes.io/suffixes")}}, fmt.Sprintf("name=%v-kind=%v", allowName, allowKind)
		}
	}
}
