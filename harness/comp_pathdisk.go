package main

import (
	"fmt"
	"math/rand"
	"os"
	"path/filepath"
	"sort"
	"strings"

	"sigs.k8s.io/kustomize/api/ifc"
	pkgloader "sigs.k8s.io/kustomize/api/pkg/loader"
	"sigs.k8s.io/kustomize/kyaml/filesys"
)

// path.disk: the file loader (RestrictionRootOnly, New with its cycle check) on a REAL directory tree with symbolic
// links — relative and absolute targets, links to files, to directories, to ancestors, dangling links and link
// loops — materialised under the work directory.  Model: lean/Kust/PathDisk.lean (lexical cleaning, then physical
// resolution); the model's root is the directory the tree is created in.

var pathDiskSeq int

func init() {
	components["path.disk"] = func(r *rand.Rand, tier string) (map[string]interface{}, func() (interface{}, string)) {
		dirs := []string{"/top", "/top/root", "/top/root/sub", "/top/root/sub/deep", "/top/outside", "/top/root-evil", "/top/Root", "/top/ROOT"}
		files := map[string]string{"/top/root/f.yaml": "ROOT", "/top/root/sub/f.yaml": "SUB", "/top/root/sub/deep/f.yaml": "DEEP",
			"/top/outside/f.yaml": "OUTSIDE", "/top/f.yaml": "TOP", "/top/root-evil/f.yaml": "EVIL", "/top/Root/f.yaml": "CAPROOT", "/top/ROOT/f.yaml": "ALLCAPS"}
		type ent struct{ p, kind, v string }
		var es []ent
		for _, d := range dirs {
			es = append(es, ent{d, "dir", ""})
		}
		var fl []string
		for f := range files {
			fl = append(fl, f)
		}
		sort.Strings(fl)
		for _, f := range fl {
			if r.Intn(8) != 0 {
				es = append(es, ent{f, "file", files[f]})
			}
		}
		used := map[string]bool{}
		for i := 1 + r.Intn(4); i > 0; i-- {
			d := pickS(r, []string{"/top/root", "/top/root", "/top/root/sub", "/top/outside", "/top/root/sub/deep"})
			name := d + "/" + pickS(r, []string{"l1", "l2", "l3"})
			if used[name] {
				continue
			}
			used[name] = true
			tgt := pickS(r, []string{"..", "../outside", "sub", "../root", "l2", "l1", "f.yaml", "../outside/f.yaml", ".", "sub/deep/..", "../..",
				"/top/outside", "/top/root/sub", "/top/root/sub/f.yaml", "nowhere", "../root-evil", "deep/../../l3", "/top"})
			es = append(es, ent{name, "link", tgt})
		}
		segs := []string{".", "..", "sub", "deep", "f.yaml", "l1", "l2", "l3", "outside", "root", "top", "root-evil"}
		word := func() string {
			var ws []string
			for j := 1 + r.Intn(4); j > 0; j-- {
				ws = append(ws, pickS(r, segs))
			}
			p := strings.Join(ws, "/")
			if r.Intn(6) == 0 {
				p = "/top/root/" + p
			}
			return p
		}
		type op struct{ k, p string }
		ops := []op{{"new", "top/root"}}
		for i := 1 + r.Intn(5); i > 0; i-- {
			if r.Intn(3) == 0 {
				ops = append(ops, op{"new", pickS(r, []string{"sub", "l1", "l2", "sub/l1", "..", "sub/deep", "l3/sub", ".", "../outside", "l1/root", word(),
					// sideways and back: a root that is above an EARLIER (not the current) root of the stack is a cycle too
					"sub", "../../outside", "../root", "../root/sub", "../../root", "../outside"})})
			} else {
				ops = append(ops, op{"load", pickS(r, []string{"f.yaml", "sub/f.yaml", "l1/f.yaml", "l1", "l2/f.yaml", "sub/l3/f.yaml", "../outside/f.yaml", "l1/../f.yaml", word(), word(),
					// absolute and NOT clean: lexically inside the root, physically through a link
					"/top/root/l1/../f.yaml", "/top/root/sub/l1/../f.yaml", "/top/root/l2/../root/f.yaml", "/top/root/l3/../f.yaml",
					"../Root/f.yaml", "../ROOT/f.yaml", "/top/Root/f.yaml", "../root-evil/f.yaml"})})
			}
		}
		if r.Intn(6) == 0 {
			// down, sideways, and back above the FIRST root (not the current one)
			ops = []op{{"new", "top/root"}, {"new", "sub"}, {"new", "../../outside"}, {"new", pickS(r, []string{"../root", "../root/sub", "../root-evil", "../../top", "l3/.."})}, {"load", "f.yaml"}}
		}
		var wfs, wops []interface{}
		for _, e := range es {
			wfs = append(wfs, []interface{}{e.p, e.kind, e.v})
		}
		for _, o := range ops {
			wops = append(wops, []interface{}{o.k, o.p})
		}
		args := map[string]interface{}{"fs": wfs, "ops": wops}
		return args, func() (interface{}, string) {
			pathDiskSeq++
			wd, _ := os.Getwd()
			// a SMALL pool of directory names, reused by later cases with other trees: a path that was a plain file or directory in
			// one case is a link in another — nothing about how a path resolved earlier in the process may be remembered
			slot := pathDiskSeq % 3
			base := filepath.Join(wd, "work", "pathdisk", fmt.Sprintf("c%d-%d", os.Getpid(), slot))
			if rb, err := filepath.EvalSymlinks(wd); err == nil {
				base = filepath.Join(rb, "work", "pathdisk", fmt.Sprintf("c%d-%d", os.Getpid(), slot))
			}
			os.RemoveAll(base)
			defer os.RemoveAll(base)
			os.MkdirAll(base, 0o755)
			for _, e := range es {
				switch e.kind {
				case "dir":
					os.MkdirAll(base+e.p, 0o755)
				case "file":
					os.WriteFile(base+e.p, []byte(e.v), 0o644)
				case "link":
					t := e.v
					if strings.HasPrefix(t, "/") {
						t = base + t
					}
					os.Symlink(t, base+e.p)
				}
			}
			fs := filesys.MakeFsOnDisk()
			var cur ifc.Loader = pkgloader.NewFileLoaderAtRoot(fs)
			nl, err := cur.New(strings.TrimPrefix(base, "/"))
			if err != nil {
				return map[string]interface{}{"err": "unmodelled"}, "skip-setup"
			}
			cur = nl
			var out []interface{}
			cls := "all-ok"
			class := func(m string) string {
				switch {
				case strings.Contains(m, "too many links"):
					return "toomanylinks"
				case strings.Contains(m, "cannot be empty"):
					return "empty"
				case strings.Contains(m, "cannot be absolute"):
					return "absolute"
				case strings.Contains(m, "cycle detected"):
					return "cycle"
				case strings.Contains(m, "must build at directory"):
					return "notdir"
				case strings.Contains(m, "security;"):
					return "security"
				case strings.Contains(m, "must resolve to a file"):
					return "notfile"
				case strings.Contains(m, "doesn't exist") || strings.Contains(m, "unable to clean") || strings.Contains(m, "no such file") ||
					strings.Contains(m, "evalsymlink failure") || strings.Contains(m, "not a directory"):
					return "notfound"
				}
				return "other:" + m
			}
			for _, o := range ops {
				p := o.p
				if strings.HasPrefix(p, "/") && o.k == "load" {
					p = base + p
				}
				if o.k == "new" {
					nl, err := cur.New(p)
					if err != nil {
						out = append(out, map[string]interface{}{"err": class(err.Error())})
						cls = "some-err"
						continue
					}
					cur = nl
					rt := nl.Root()
					if !strings.HasPrefix(rt, base) {
						return map[string]interface{}{"err": "unmodelled"}, "skip-left-the-tree"
					}
					rt = strings.TrimPrefix(rt, base)
					if rt == "" {
						rt = "/"
					}
					out = append(out, map[string]interface{}{"ok": rt})
				} else {
					b, err := cur.Load(p)
					if err != nil {
						out = append(out, map[string]interface{}{"err": class(err.Error())})
						cls = "some-err"
						continue
					}
					out = append(out, map[string]interface{}{"ok": string(b)})
				}
			}
			return map[string]interface{}{"ok": out}, cls
		}
	}
}
