package main

import (
	"bufio"
	"crypto/sha1"
	"encoding/json"
	"fmt"
	"io"
	"math/rand"
	"os"
	"os/exec"
	"reflect"
	"sort"
	"strings"
)

// A component generator produces one case: the arguments sent to the Lean driver, the result of the real
// Go code on the same arguments, and a short class label (branch taken) used for the distribution report.
type compGen func(r *rand.Rand, tier string) (args map[string]interface{}, run func() (goOut interface{}, class string))

var components = map[string]compGen{}

// fixed corpus cases (minimised past failures / hand-picked), run before the generated ones.
var corpus = map[string][]func() (map[string]interface{}, interface{}, string){}

type disagreement struct {
	Comp string      `json:"comp"`
	ID   int         `json:"id"`
	Seed int64       `json:"seed"`
	Args interface{} `json:"args"`
	Go   interface{} `json:"go"`
	Lean interface{} `json:"lean"`
}

type compReport struct {
	Cases         int            `json:"cases"`
	Distinct      int            `json:"distinct"`
	Disagreements int            `json:"disagreements"`
	Unmodelled    int            `json:"unmodelled"`
	GoPanics      int            `json:"go_panics"`
	Classes       map[string]int `json:"classes"`
	Sample        interface{}    `json:"sample"`
}

type corrReport struct {
	Seed       int64                  `json:"seed"`
	Tier       string                 `json:"tier"`
	Components map[string]*compReport `json:"components"`
	Disagree   []disagreement         `json:"disagree"`
	DrvErrors  []string               `json:"drv_errors"`
}

func guard(f func() interface{}) (out interface{}) {
	defer func() {
		if p := recover(); p != nil {
			out = map[string]interface{}{"panic": fmt.Sprint(p)}
		}
	}()
	return f()
}

func isUnmodelled(v interface{}) bool {
	m, ok := v.(map[string]interface{})
	if !ok {
		return false
	}
	return m["err"] == "unmodelled"
}

// outEqual compares results; panic sites are compared only by presence (Go's message vs the model's site label).
func outEqual(g, l interface{}) bool {
	gm, ok1 := g.(map[string]interface{})
	lm, ok2 := l.(map[string]interface{})
	if ok1 && ok2 {
		_, gp := gm["panic"]
		_, lp := lm["panic"]
		if gp || lp {
			return gp && lp
		}
	}
	return reflect.DeepEqual(g, l)
}

func runCorr(comps []string, seed int64, n int, tier, drv string) (*corrReport, error) {
	rep := &corrReport{Seed: seed, Tier: tier, Components: map[string]*compReport{}}
	type pending struct {
		comp string
		id   int
		seed int64
		args interface{}
		goO  interface{}
	}
	var cases []pending
	id := 0
	for _, c := range comps {
		gen, ok := components[c]
		if !ok {
			return nil, fmt.Errorf("unknown component %s", c)
		}
		cr := &compReport{Classes: map[string]int{}}
		rep.Components[c] = cr
		seen := map[[20]byte]bool{}
		add := func(args map[string]interface{}, goOut interface{}, class string, cs int64) {
			id++
			ca := canon(args)
			cg := canon(goOut)
			cases = append(cases, pending{c, id, cs, ca, cg})
			cr.Cases++
			cr.Classes[class]++
			h := sha1.Sum([]byte(jstr(ca)))
			if !seen[h] {
				seen[h] = true
			}
			if gm, ok := cg.(map[string]interface{}); ok {
				if _, p := gm["panic"]; p {
					cr.GoPanics++
				}
			}
			if cr.Sample == nil && class != "" && !strings.HasPrefix(class, "err") && cr.Cases > 3 {
				cr.Sample = map[string]interface{}{"args": ca, "go": cg}
			}
		}
		for _, f := range corpus[c] {
			a, g, cl := f()
			add(a, g, "corpus:"+cl, -1)
		}
		master := rand.New(rand.NewSource(seed*1000003 + int64(len(c))*7919 + hashStr(c)))
		for i := 0; i < n; i++ {
			cs := master.Int63()
			r := rand.New(rand.NewSource(cs))
			args, run := gen(r, tier)
			class := "go-panic"
			goOut := guard(func() interface{} {
				g, cl := run()
				class = cl
				return g
			})
			add(args, goOut, class, cs)
		}
		cr.Distinct = len(seen)
	}
	// pipe to the driver
	cmd := exec.Command(drv)
	stdin, _ := cmd.StdinPipe()
	stdout, _ := cmd.StdoutPipe()
	cmd.Stderr = os.Stderr
	if err := cmd.Start(); err != nil {
		return nil, err
	}
	go func() {
		w := bufio.NewWriterSize(stdin, 1<<20)
		for _, p := range cases {
			b, _ := json.Marshal(map[string]interface{}{"id": p.id, "comp": p.comp, "args": p.args})
			w.Write(b)
			w.WriteByte('\n')
		}
		w.Flush()
		stdin.Close()
	}()
	rd := bufio.NewReaderSize(stdout, 1<<20)
	for _, p := range cases {
		line, err := rd.ReadBytes('\n')
		if err != nil && err != io.EOF || len(line) == 0 {
			return nil, fmt.Errorf("driver ended early at case %d (%s): %v", p.id, p.comp, err)
		}
		var res map[string]interface{}
		if err := json.Unmarshal(line, &res); err != nil {
			return nil, fmt.Errorf("driver output not JSON: %s", line)
		}
		cr := rep.Components[p.comp]
		if e, ok := res["drv_error"]; ok {
			rep.DrvErrors = append(rep.DrvErrors, fmt.Sprintf("%s#%d: %v", p.comp, p.id, e))
			cr.Disagreements++
			continue
		}
		lo := res["out"]
		if isUnmodelled(lo) || isUnmodelled(p.goO) {
			cr.Unmodelled++
			continue
		}
		if !outEqual(p.goO, lo) {
			cr.Disagreements++
			if len(rep.Disagree) < 25 {
				rep.Disagree = append(rep.Disagree, disagreement{p.comp, p.id, p.seed, p.args, p.goO, lo})
			}
		}
	}
	cmd.Wait()
	return rep, nil
}

func hashStr(s string) int64 {
	var h int64 = 1469598103934665603
	for i := 0; i < len(s); i++ {
		h ^= int64(s[i])
		h *= 1099511628211
	}
	if h < 0 {
		h = -h
	}
	return h
}

func sortedKeys(m map[string]int) []string {
	ks := make([]string, 0, len(m))
	for k := range m {
		ks = append(ks, k)
	}
	sort.Strings(ks)
	return ks
}
