package main

import (
	"bytes"
	"fmt"
	"math/rand"
	"strings"

	"sigs.k8s.io/kustomize/kustomize/v5/commands/edit/fix"
	"sigs.k8s.io/kustomize/kyaml/filesys"
	sigsyaml "sigs.k8s.io/yaml"
)

// deprecate rewrites (a copy of) a layer's kustomization into deprecated spellings chosen by mask.
func deprecate(k Obj, mask int, isDirRes func(string) bool) (Obj, []string) {
	out := Obj{}
	for kk, v := range k {
		out[kk] = v
	}
	var used []string
	if mask&1 != 0 {
		out["_bases"] = true // Write lists the child directory under `bases` instead of `resources`
		used = append(used, "bases")
	}
	if mask&2 != 0 {
		if im, ok := out["images"]; ok {
			delete(out, "images")
			out["imageTags"] = im
			used = append(used, "imageTags")
		}
	}
	if mask&4 != 0 {
		if cl, ok := out["labels"].([]interface{}); ok && len(cl) == 1 {
			e := cl[0].(Obj)
			if e["includeSelectors"] == true {
				delete(out, "labels")
				out["commonLabels"] = e["pairs"]
				used = append(used, "commonLabels")
			}
		}
	}
	if mask&8 != 0 {
		if ps, ok := out["patches"].([]interface{}); ok {
			var sm, js, rest []interface{}
			for _, p := range ps {
				po := p.(Obj)
				switch {
				case po["target"] != nil:
					js = append(js, po)
				case po["path"] != nil:
					sm = append(sm, po["path"])
				default:
					sm = append(sm, po["patch"])
				}
			}
			_ = rest
			delete(out, "patches")
			if len(sm) > 0 {
				out["patchesStrategicMerge"] = sm
				used = append(used, "patchesStrategicMerge")
			}
			if len(js) > 0 {
				out["patchesJson6902"] = js
				used = append(used, "patchesJson6902")
			}
		}
	}
	if mask&16 != 0 {
		for _, gk := range []string{"configMapGenerator", "secretGenerator"} {
			if gs, ok := out[gk].([]interface{}); ok {
				var ng []interface{}
				for _, g := range gs {
					gm := Obj{}
					for a, b := range g.(Obj) {
						gm[a] = b
					}
					if es, ok := gm["envs"].([]interface{}); ok && len(es) == 1 {
						delete(gm, "envs")
						gm["env"] = es[0]
						used = append(used, "env")
					}
					ng = append(ng, gm)
				}
				out[gk] = ng
			}
		}
	}
	return out, used
}

func init() {
	oracles["C19"] = func(seed int64, n int, tier, work string) *oracleReport {
		o := newOracleRun("C19", seed)
		for _, cs := range caseSeeds(seed, n, "C19") {
			r := rand.New(rand.NewSource(cs))
			if r.Intn(10) == 0 {
				c19NullInMetadata(o, r, cs)
				continue
			}
			f := allFeat()
			f.Dense = r.Intn(2) == 0
			t := genTree(r, f)
			t.BaseLast = true
			addGenerators(r, t)
			// current spellings that have a deprecated twin: labels+includeSelectors instead of commonLabels, envs
			for _, L := range t.Layers {
				if cl, ok := L.Kust["commonLabels"]; ok {
					delete(L.Kust, "commonLabels")
					delete(L.Kust, "labels")
					L.Kust["labels"] = []interface{}{Obj{"pairs": cl, "includeSelectors": true}}
				}
				if gs, ok := L.Kust["configMapGenerator"].([]interface{}); ok && r.Intn(2) == 0 {
					g := gs[0].(Obj)
					L.Files["vars.env"] = "EK=ev\nEK2=ev2\n"
					g["envs"] = []interface{}{"vars.env"}
				}
			}
			// inline strategic-merge patches written on ONE line (JSON / flow style) as often as in block style
			for _, L := range t.Layers {
				ps, _ := L.Kust["patches"].([]interface{})
				for _, p := range ps {
					po, _ := p.(Obj)
					if txt, isS := po["patch"].(string); isS && po["target"] == nil && r.Intn(2) == 0 {
						if j, e := sigsyaml.YAMLToJSON([]byte(txt)); e == nil && !strings.Contains(string(j), "\n") {
							po["patch"] = string(j)
						}
					}
				}
			}
			// JSON 6902 patches written as YAML whose values are PLAIN scalars that YAML 1.1 and YAML 1.2 read differently
			// (`yes`, `on`, `off`, `n`, `0o17`, `1_000`): whatever they mean, they mean the same under both spellings
			for _, L := range t.Layers {
				ps, _ := L.Kust["patches"].([]interface{})
				for _, p := range ps {
					po, _ := p.(Obj)
					if _, isS := po["patch"].(string); isS && po["target"] != nil && r.Intn(3) == 0 {
						// a target whose name is a pattern: it may select several resources (the name family app, app-1, app2, …) — under
						// either spelling (the deprecated one insists on SOME name, so the name stays)
						if tg, ok := po["target"].(Obj); ok {
							if nm, ok := tg["name"].(string); ok && nm != "" && nm != "xapp" { // (prefix `x` + `app` = `xapp`: rename-sensitive, finding C19-K1)
								// (the pattern is open on BOTH sides: the affixes of the layers — p-, dev-, x, -s, -v2, z — add nothing it
								// could match, so it selects the same resources before and after the renaming transformers; a pattern
								// open on one side only would run into finding C19-K1, the different position of the two spellings)
								tg["name"] = ".*" + nm + ".*"
								delete(tg, "kind")
							}
						}
					}
					if txt, isS := po["patch"].(string); isS && po["target"] != nil && strings.HasPrefix(txt, "- op:") && r.Intn(2) == 0 {
						po["patch"] = txt + "- op: add\n  path: /metadata/annotations/jp2\n  value: " + pickS(r, []string{"yes", "on", "off", "n", "\"yes\"", "1_000"}) + "\n"
					}
				}
			}
			fs := filesys.MakeFsInMemory()
			t.Write(fs, "/w")
			base, err, pnc := safeBuild(func() (string, error) { return runBuild(fs, t.TopDir("/w"), nil) })
			if pnc != nil || err != nil {
				o.note(errClass(err), cs)
				continue
			}
			// ---- deprecated spellings on a random subset of layers
			saved := make([]Obj, len(t.Layers))
			var usedAll []string
			for i, L := range t.Layers {
				saved[i] = L.Kust
				if r.Intn(3) != 0 {
					nk, used := deprecate(L.Kust, 1+r.Intn(31), func(s string) bool { return strings.HasPrefix(s, "../") })
					// resources are filled in by Write: do the bases rewrite there
					L.Kust = nk
					usedAll = append(usedAll, used...)
				}
			}
			fs2 := filesys.MakeFsInMemory()
			t.Write(fs2, "/w")
			// bases: Write puts the child dir into `resources`; move it for layers with mask bit 1 when it is the only entry
			dep, derr, _ := safeBuild(func() (string, error) { return runBuild(fs2, t.TopDir("/w"), nil) })
			for i, L := range t.Layers {
				L.Kust = saved[i]
			}
			cls := "ok-no-deprecated"
			if len(usedAll) > 0 {
				cls = "ok-deprecated"
			}
			o.note(cls, map[string]interface{}{"seed": cs, "spellings": usedAll})
			if derr != nil {
				o.fail("deprecated-spelling-fails", "the deprecated spelling fails to build: "+derr.Error(), cs, dumpFS(fs2, "/w"), nil, nil)
			} else if dep != base {
				class := "deprecated-spelling-differs:" + strings.Join(uniqStrs(usedAll), "+")
				what := "build(T) != build(rewrite(T))"
				// recogniser: `patchesJson6902` runs AFTER namespace/prefix/suffix/labels, `patches` before them, so a target
				// selector can match a resource under its new name in one spelling and not in the other.  The generated
				// JSON patches only add metadata.annotations.jp: if that is the whole difference, it is that finding.
				if strings.Contains(strings.Join(usedAll, ","), "patchesJson6902") && stripJP(base) == stripJP(dep) && jpTextsNested(base, dep) {
					class = "json6902-target-selected-after-renaming"
					what = "a patchesJson6902 target selects a different set of resources than the same entry under `patches` (it runs after the renaming transformers)"
				}
				o.fail(class, what, cs, map[string]interface{}{"current": dumpFS(fs, "/w"), "deprecated": dumpFS(fs2, "/w")}, firstDiff(base, dep), nil)
			}
			// ---- `kustomize edit fix` on the innermost layer written in deprecated spellings, at the FS root
			L0 := t.Layers[0]
			one := &Tree{Layers: []*KLayer{L0}, Res: t.Res, Feat: t.Feat}
			savedK := L0.Kust
			nk, used := deprecate(L0.Kust, 2|4|8|16, func(string) bool { return false })
			L0.Kust = nk
			fs3 := filesys.MakeFsInMemory()
			savedDir := L0.Dir
			L0.Dir = ""
			one.Write(fs3, "/")
			L0.Dir = savedDir
			L0.Kust = savedK
			before, berr, _ := safeBuild(func() (string, error) { return runBuild(fs3, "/", nil) })
			if berr != nil || len(used) == 0 {
				continue
			}
			var w bytes.Buffer
			ferr := fix.RunFix(fs3, &w)
			after, aerr, _ := safeBuild(func() (string, error) { return runBuild(fs3, "/", nil) })
			o.note("fix", map[string]interface{}{"seed": cs, "spellings": used})
			kf, _ := fs3.ReadFile("/kustomization.yaml")
			switch {
			case ferr != nil:
				o.fail("edit-fix-fails", "kustomize edit fix fails: "+ferr.Error(), cs, dumpFS(fs3, "/"), nil, nil)
			case aerr != nil:
				o.fail("edit-fix-breaks-build", "after edit fix the build fails: "+aerr.Error(), cs, dumpFS(fs3, "/"), nil, nil)
			case after != before:
				cls, what := "edit-fix-changes-output", "build(T) != build(fix(T))"
				// recogniser of finding C19-K1 on the fix path: fix moves `patchesJson6902` entries to `patches`, which run BEFORE the
				// renaming transformers instead of after them; when the outputs agree once the JSON patches' own annotation is left
				// out, the only difference is WHICH resources a target selected
				for _, u := range used {
					if u == "patchesJson6902" && stripJP(before) == stripJP(after) && jpTextsNested(before, after) {
						cls = "json6902-target-selected-after-renaming"
						what = "after edit fix a former patchesJson6902 target selects another set of resources (as a `patches` entry it runs before the renaming transformers)"
					}
				}
				o.fail(cls, what, cs, dumpFS(fs3, "/"), firstDiff(before, after), nil)
			default:
				for _, d := range []string{"commonLabels:", "patchesStrategicMerge:", "patchesJson6902:"} {
					if strings.Contains(string(kf), "\n"+d) || strings.HasPrefix(string(kf), d) {
						o.fail("edit-fix-leaves-deprecated-field", "edit fix leaves "+d, cs, string(kf), nil, nil)
					}
				}
			}
		}
		return o.rep
	}
}

func uniqStrs(xs []string) []string {
	m := map[string]bool{}
	for _, x := range xs {
		m[x] = true
	}
	return sortedStrs(m)
}

var _ = fmt.Sprint

// stripJP removes the annotation written by the generated JSON patches (and an annotations map left empty by that)
// jpTextsNested: the renderings of the JSON patches' own annotations (`jp: …`, `jp2: …` lines) in one output are a subset of
// those in the other — the two builds wrote the SAME values, to other (more, fewer) resources.  Different renderings of one value
// (`"yes"` here, `true` there) are another difference than finding C19-K1 and must not be taken for it.
func jpTextsNested(a, b string) bool {
	texts := func(out string) map[string]bool {
		m := map[string]bool{}
		for _, l := range strings.Split(out, "\n") {
			t := strings.TrimSpace(l)
			if strings.HasPrefix(t, "jp: ") || strings.HasPrefix(t, "jp2: ") {
				m[t] = true
			}
		}
		return m
	}
	ta, tb := texts(a), texts(b)
	sub := func(x, y map[string]bool) bool {
		for k := range x {
			if !y[k] {
				return false
			}
		}
		return true
	}
	return sub(ta, tb) || sub(tb, ta)
}

func stripJP(out string) string {
	var ls []string
	lines := strings.Split(out, "\n")
	for i := 0; i < len(lines); i++ {
		if strings.TrimSpace(lines[i]) == "jp: v" || strings.HasPrefix(strings.TrimSpace(lines[i]), "jp: ") || strings.HasPrefix(strings.TrimSpace(lines[i]), "jp2: ") {
			continue
		}
		ls = append(ls, lines[i])
	}
	// an `annotations:` key whose only entry was jp
	var out2 []string
	for i := 0; i < len(ls); i++ {
		if strings.TrimSpace(ls[i]) == "annotations:" && (i+1 >= len(ls) || indentOf(ls[i+1]) <= indentOf(ls[i])) {
			continue
		}
		out2 = append(out2, ls[i])
	}
	return strings.Join(out2, "\n")
}

func indentOf(l string) int { return len(l) - len(strings.TrimLeft(l, " ")) }

// c19NullInMetadata: a strategic-merge patch that sets a label / annotation to null (the merge rule: null deletes the key), or to
// a number-like string, listed under `patchesStrategicMerge` and under `patches`: both spellings build to the same output.
func c19NullInMetadata(o *oracleRun, r *rand.Rand, cs int64) {
	val := pickS(r, []string{"null", "null", "~", "\"123\"", "\"true\""})
	where := pickS(r, []string{"labels", "annotations"})
	patch := "apiVersion: v1\nkind: ConfigMap\nmetadata:\n  name: cm\n  " + where + ":\n    foo: " + val + "\n"
	res := "apiVersion: v1\nkind: ConfigMap\nmetadata:\n  name: cm\n  labels:\n    foo: bar\n    x: y\n  annotations:\n    foo: v\n    z: w\ndata:\n  k: v\n"
	build := func(field string) (string, error) {
		fs := filesys.MakeFsInMemory()
		fs.WriteFile("/w/r.yaml", []byte(res))
		fs.WriteFile("/w/p.yaml", []byte(patch))
		fs.WriteFile("/w/kustomization.yaml", []byte("resources:\n- r.yaml\n"+field))
		out, err, _ := safeBuild(func() (string, error) { return runBuild(fs, "/w", nil) })
		return out, err
	}
	inline := r.Intn(2) == 0
	dep, cur := "patchesStrategicMerge:\n- p.yaml\n", "patches:\n- path: p.yaml\n"
	if inline {
		ind := "    " + strings.ReplaceAll(strings.TrimSuffix(patch, "\n"), "\n", "\n    ") + "\n"
		dep, cur = "patchesStrategicMerge:\n- |-\n"+ind, "patches:\n- patch: |-\n"+ind
	}
	a, e1 := build(dep)
	b, e2 := build(cur)
	in := map[string]interface{}{"scenario": "null-in-metadata", "patch": patch, "resource": res, "deprecated": dep, "current": cur}
	o.note(fmt.Sprintf("null-in-metadata-%v-%v", e1 == nil, e2 == nil), in)
	if (e1 == nil) != (e2 == nil) {
		o.fail("deprecated-spelling-fails", fmt.Sprintf("one spelling builds, the other fails: %v / %v", e1, e2), cs, in, nil, nil)
		return
	}
	if e1 == nil && a != b {
		o.fail("metadata-value-stringified-under-patchesStrategicMerge", "the same strategic-merge patch gives another output under `patchesStrategicMerge` than under `patches`", cs, in, firstDiff(b, a), nil)
	}
}
