package main

import (
	_ "embed"
	"encoding/json"
	"fmt"
	"math/rand"
	"os"
	"path/filepath"
	"sort"
	"strings"

	"sigs.k8s.io/kustomize/api/krusty"
	"sigs.k8s.io/kustomize/api/types"
	"sigs.k8s.io/kustomize/kyaml/filesys"
	"sigs.k8s.io/yaml"
)

// ---------------------------------------------------------------------------------------------------------
// Generated domain of kustomization trees (DESIGN §2.2): 1-3 layers, ~20 kinds, reference edges, directives.
// Every tree is described abstractly (Tree) and written to a filesys.FileSystem as files.
// ---------------------------------------------------------------------------------------------------------

type Obj = map[string]interface{}

const tracerKey = "verif/tracer"

type Feat struct {
	Prefix, Suffix, Namespace, Labels, Annotations, Images, Replicas bool
	PatchSM, PatchJSON, Replacements, Generators, LegacySort         bool
	Adversarial                                                      bool // adversarial scalars in free fields
	Refs                                                             bool // reference edges between resources
	Deprecated                                                       bool // deprecated spellings (C19)
	Dense                                                            bool // more resources and referrers per layer
	Siblings                                                         bool // tree-shaped (not only chain-shaped) layerings
	Anchors                                                          bool // some workloads use YAML anchors/aliases for their label maps
	SiblingHeavy, AffixHeavy                                         bool // most trees have siblings / most layers have a prefix or suffix
	MaxLayers                                                        int
}

func allFeat() Feat {
	return Feat{Prefix: true, Suffix: true, Namespace: true, Labels: true, Annotations: true, Images: true, Replicas: true,
		PatchSM: true, PatchJSON: true, Replacements: false, Generators: true, Refs: true, Siblings: true, Anchors: true, MaxLayers: 3}
}

type GenRes struct {
	ID    string // tracer value
	Kind  string
	Name  string // original name
	NS    string // original namespace ("" = unset)
	Layer int    // index of the layer that loads it
	Obj   Obj
	Gen   bool // produced by a generator (no input object)
}

// Edge: the field at Path of resource From holds the name of resource To.
type Edge struct {
	// Subject: a `subjects[i]` entry of a (Cluster)RoleBinding — it names its account together with the account's own
	// namespace, so it legitimately points across namespaces
	Subject bool
	NoRule  bool // the field is not covered by the name-reference rules: must stay UNCHANGED (external-looking)
	From    string
	Path    []interface{} // string keys and int indices
	To      string
}

type KLayer struct {
	Dir   string            // directory name under the tree root
	Kust  Obj               // kustomization.yaml content (resources filled by Write)
	Files map[string]string // extra files (patches, env files …), relative to Dir
	ResF  []string          // resource file names in order
	Docs  map[string][]Obj  // resource file -> documents
	// directives, recorded for the oracles
	Prefix, Suffix, NS string
	Images             []Obj
	Replicas           []Obj
	Patches            []PatchSpec
	Labels             map[string]string // commonLabels (selectors included)
	MetaLabels         map[string]string // labels without includeSelectors
	MetaLabelsTmpl     bool
	Annos              map[string]string
}

// PatchSpec records one generated patch: which resource it addresses and which paths it may change.
type PatchSpec struct {
	Target string          // tracer of the target
	JSON   bool            // JSON6902 (else strategic merge)
	Paths  [][]interface{} // path prefixes the patch touches
}

type Tree struct {
	Layers   []*KLayer // 0 = innermost base, last = top
	Res      []*GenRes
	Edges    []Edge
	Feat     Feat
	Notes    []string
	BaseLast bool // list the child directory after the files (needed to compare with the deprecated `bases`)
	// Parent[i] = the layer whose kustomization lists layer i (-1 for the top, the last layer).  A chain has
	// Parent[i] = i+1; a layer with several children makes those children SIBLINGS (each with its own directives).
	Parent []int
	nextID int
	// PostWrite, when set, edits the written files (oracle-specific additions that are not part of the resource graph)
	PostWrite func(fs filesys.FileSystem, root string)
}

// Chain: the layers a resource loaded by layer li passes through, innermost first.
func (t *Tree) Chain(li int) []int {
	var out []int
	for li >= 0 && li < len(t.Layers) {
		out = append(out, li)
		if li >= len(t.Parent) {
			li++
			if li >= len(t.Layers) {
				break
			}
			continue
		}
		li = t.Parent[li]
	}
	return out
}

// Visible: is a resource loaded by layer from part of what layer at sees?
func (t *Tree) Visible(from, at int) bool {
	for _, l := range t.Chain(from) {
		if l == at {
			return true
		}
	}
	return false
}

func (t *Tree) children(li int) []int {
	var out []int
	for j := range t.Layers {
		if j < len(t.Parent) && t.Parent[j] == li {
			out = append(out, j)
		}
	}
	return out
}

var nameFamilies = [][]string{
	{"app", "app-1", "myapp", "app2", "xapp"},
	{"web", "web-1", "aweb", "web.x"},
	{"db", "db-1", "adb"},
	// names that differ in how a number is written only
	{"job-1", "job-01", "job-001", "job-10", "job-2"},
}

var advScalars = []string{"yes", "no", "on", "off", "y", "n", "~", "null", "012", "0x1F", "1e3", "1_000", ".inf", "2001-01-01",
	"1:20", " lead", "trail ", "a: b", "- x", "#c", "tab\there", "multi\nline", "ünï", "{x}", "[y]", "true", "123", "1.5", "",
	// text that LOOKS like variable syntax (no `vars` are declared: it is plain text)
	"$$(POD_NAME)", "costs $$5", "$$$$", "$(NOT_A_VAR)", "$", "a$$b"}

func (t *Tree) newID() string {
	t.nextID++
	return fmt.Sprintf("r%d", t.nextID)
}

func pickS(r *rand.Rand, xs []string) string { return xs[r.Intn(len(xs))] }

func freeValue(r *rand.Rand, adv bool) interface{} {
	if adv && r.Intn(2) == 0 {
		return pickS(r, advScalars)
	}
	switch r.Intn(5) {
	case 0:
		return float64(r.Intn(50))
	case 1:
		return r.Intn(2) == 0
	case 2:
		return nil
	default:
		return pickS(r, []string{"v1", "v2", "hello", "x-y"})
	}
}

func meta(id, name, ns string, labels map[string]string) Obj {
	m := Obj{"name": name, "annotations": Obj{tracerKey: id}}
	if ns != "" {
		m["namespace"] = ns
	}
	if len(labels) > 0 {
		l := Obj{}
		for k, v := range labels {
			l[k] = v
		}
		m["labels"] = l
	}
	return m
}

var workloadKinds = []string{"Deployment", "StatefulSet", "DaemonSet", "ReplicaSet", "Job", "CronJob", "Pod", "ReplicationController"}

func apiVersionOf(kind string) string {
	switch kind {
	case "Deployment", "StatefulSet", "DaemonSet", "ReplicaSet":
		return "apps/v1"
	case "Job", "CronJob":
		return "batch/v1"
	case "Ingress", "NetworkPolicy":
		return "networking.k8s.io/v1"
	case "HorizontalPodAutoscaler":
		return "autoscaling/v2"
	case "Role", "ClusterRole", "RoleBinding", "ClusterRoleBinding":
		return "rbac.authorization.k8s.io/v1"
	case "PodDisruptionBudget":
		return "policy/v1"
	case "CustomResourceDefinition":
		return "apiextensions.k8s.io/v1"
	case "MyKind", "OtherKind", "ClusterWidget", "Cluster":
		return "example.com/v1"
	}
	return "v1"
}

// versionedScope: kinds whose scope the built-in schema knows for SOME versions only.  A version the schema does not
// know is "not certainly cluster-scoped", so the namespace directive applies to it (documented fall-back).
var versionedScope = map[string]bool{
	"scheduling.k8s.io/v1/PriorityClass": true, "scheduling.k8s.io/v1alpha1/PriorityClass": false,
	"storage.k8s.io/v1/VolumeAttachment": true, "storage.k8s.io/v1alpha1/VolumeAttachment": false,
}

func (g *GenRes) clusterScoped() bool {
	av, _ := g.Obj["apiVersion"].(string)
	if v, ok := versionedScope[av+"/"+g.Kind]; ok {
		return v
	}
	return isClusterScoped(g.Kind)
}

// hpaTargetVersion: the apiVersion an HPA writes in scaleTargetRef need not be the one the target's manifest uses
// (served versions of the same kind); the reference is by kind and name.
func hpaTargetVersion(r *rand.Rand, kind string) string {
	if r.Intn(3) == 0 {
		switch kind {
		case "Deployment", "StatefulSet", "ReplicaSet":
			return pickS(r, []string{"apps/v1beta2", "extensions/v1beta1", "apps/v1beta1"})
		}
	}
	return apiVersionOf(kind)
}

func isClusterScoped(kind string) bool {
	switch kind {
	case "Namespace", "ClusterRole", "ClusterRoleBinding", "CustomResourceDefinition", "PersistentVolume":
		return true
	}
	return false
}

// podSpecPath returns the path of the pod spec inside a workload of the given kind.
func podSpecPath(kind string) []string {
	switch kind {
	case "Pod":
		return []string{"spec"}
	case "CronJob":
		return []string{"spec", "jobTemplate", "spec", "template", "spec"}
	}
	return []string{"spec", "template", "spec"}
}

func templateMetaPath(kind string) []string {
	switch kind {
	case "Pod":
		return nil
	case "CronJob":
		return []string{"spec", "jobTemplate", "spec", "template", "metadata"}
	}
	return []string{"spec", "template", "metadata"}
}

func setPath(o Obj, path []string, v interface{}) {
	cur := o
	for i, p := range path {
		if i == len(path)-1 {
			cur[p] = v
			return
		}
		nx, ok := cur[p].(Obj)
		if !ok {
			nx = Obj{}
			cur[p] = nx
		}
		cur = nx
	}
}

// sel selects the list element whose field Key has value Val (stable under list reordering by patches).
type sel struct{ Key, Val string }

func getPath(o interface{}, path []interface{}) (interface{}, bool) {
	cur := o
	for _, p := range path {
		switch k := p.(type) {
		case sel:
			l, ok := cur.([]interface{})
			if !ok {
				return nil, false
			}
			found := false
			for _, e := range l {
				if m, ok := e.(map[string]interface{}); ok && m[k.Key] == k.Val {
					cur, found = e, true
					break
				}
			}
			if !found {
				return nil, false
			}
		case string:
			m, ok := cur.(map[string]interface{})
			if !ok {
				return nil, false
			}
			cur, ok = m[k]
			if !ok {
				return nil, false
			}
		case int:
			l, ok := cur.([]interface{})
			if !ok || k >= len(l) {
				return nil, false
			}
			cur = l[k]
		}
	}
	return cur, true
}

func ipath(ss []string, rest ...interface{}) []interface{} {
	out := make([]interface{}, 0, len(ss)+len(rest))
	for _, s := range ss {
		out = append(out, s)
	}
	return append(out, rest...)
}

// ---- resource builders ----

func (t *Tree) addRes(layer int, kind, name, ns string, obj Obj) *GenRes {
	r := &GenRes{ID: obj["metadata"].(Obj)["annotations"].(Obj)[tracerKey].(string), Kind: kind, Name: name, NS: ns, Layer: layer, Obj: obj}
	t.Res = append(t.Res, r)
	return r
}

func (t *Tree) mkWorkload(r *rand.Rand, layer int, kind, name, ns string, podLabels map[string]string) *GenRes {
	id := t.newID()
	o := Obj{"apiVersion": apiVersionOf(kind), "kind": kind, "metadata": meta(id, name, ns, podLabels)}
	ps := Obj{"containers": []interface{}{Obj{"name": "main", "image": pickS(r, []string{"nginx", "nginx:1.0", "registry:5000/nginx", "mynginx", "nginx.io/x", "busybox@sha256:abcd"})}}}
	if t.Feat.Adversarial {
		ps["containers"].([]interface{})[0].(Obj)["args"] = []interface{}{pickS(r, advScalars), pickS(r, advScalars)}
		o["metadata"].(Obj)["annotations"].(Obj)["free"] = pickS(r, advScalars)
	}
	setPath(o, podSpecPath(kind), ps)
	if tm := templateMetaPath(kind); tm != nil {
		l := Obj{}
		for k, v := range podLabels {
			l[k] = v
		}
		setPath(o, append(append([]string{}, tm...), "labels"), l)
		// selector
		switch kind {
		case "Deployment", "StatefulSet", "DaemonSet", "ReplicaSet":
			sel := Obj{}
			for k, v := range podLabels {
				sel[k] = v
			}
			setPath(o, []string{"spec", "selector", "matchLabels"}, sel)
		case "ReplicationController":
			sel := Obj{}
			for k, v := range podLabels {
				sel[k] = v
			}
			setPath(o, []string{"spec", "selector"}, sel)
		}
	}
	switch kind {
	case "Deployment", "StatefulSet", "ReplicaSet", "ReplicationController":
		if r.Intn(2) == 0 {
			o["spec"].(Obj)["replicas"] = float64(1 + r.Intn(3))
		}
	case "CronJob":
		o["spec"].(Obj)["schedule"] = "* * * * *"
	}
	if t.Feat.Adversarial {
		o["spec"].(Obj)["free"] = freeValue(r, true)
	}
	return t.addRes(layer, kind, name, ns, o)
}

func (t *Tree) mkSimple(r *rand.Rand, layer int, kind, name, ns string) *GenRes {
	id := t.newID()
	av := apiVersionOf(kind)
	switch kind {
	case "PriorityClass":
		av = "scheduling.k8s.io/" + pickS(r, []string{"v1", "v1alpha1"})
	case "VolumeAttachment":
		av = "storage.k8s.io/" + pickS(r, []string{"v1", "v1alpha1"})
	}
	if isClusterScoped(kind) || versionedScope[av+"/"+kind] {
		ns = ""
	}
	o := Obj{"apiVersion": av, "kind": kind, "metadata": meta(id, name, ns, nil)}
	switch kind {
	case "ConfigMap":
		o["data"] = Obj{"k": "v", "k2": fmt.Sprint(freeValue(r, t.Feat.Adversarial))}
	case "Secret":
		o["type"] = "Opaque"
		o["stringData"] = Obj{"p": "w"}
	case "Service":
		o["spec"] = Obj{"ports": []interface{}{Obj{"port": float64(80)}}}
	case "PersistentVolumeClaim":
		o["spec"] = Obj{"accessModes": []interface{}{"ReadWriteOnce"}}
	case "Role", "ClusterRole":
		o["rules"] = []interface{}{Obj{"apiGroups": []interface{}{""}, "resources": []interface{}{"pods"}, "verbs": []interface{}{"get"}}}
	case "MyKind", "OtherKind", "ClusterWidget", "Cluster":
		// (custom kinds the schema does not know — whatever their NAME suggests, they are "not certainly
		// cluster-scoped": the namespace directive applies to them)
		o["spec"] = Obj{"free": freeValue(r, t.Feat.Adversarial), "items": []interface{}{Obj{"name": "a", "v": float64(1)}, Obj{"name": "b", "v": float64(2)}}}
	case "CustomResourceDefinition":
		o["spec"] = Obj{"group": "example.com", "names": Obj{"kind": "MyKind", "plural": "mykinds"}, "scope": "Namespaced"}
	case "PriorityClass":
		o["value"] = float64(10)
	case "VolumeAttachment":
		o["spec"] = Obj{"attacher": "x", "nodeName": "n", "source": Obj{"persistentVolumeName": "pv"}}
	}
	return t.addRes(layer, kind, name, ns, o)
}

//go:embed nameref_frozen.json
var namerefFrozenJSON []byte

var namerefFrozen map[string]bool

// ruleFrozen: is (referent kind, referrer kind, table path) in the reviewed snapshot of the name-reference rules?
// The snapshot is deliberately NOT regenerated: a rule removed from the code is still exercised by the oracle.
func ruleFrozen(referent, referrer, path string) bool {
	if namerefFrozen == nil {
		namerefFrozen = map[string]bool{}
		var es []map[string]string
		if err := json.Unmarshal(namerefFrozenJSON, &es); err != nil {
			panic(err)
		}
		for _, e := range es {
			namerefFrozen[e["referent"]+"|"+e["referrer"]+"|"+e["path"]] = true
		}
	}
	return namerefFrozen[referent+"|"+referrer+"|"+path]
}

// addPodRef adds a reference from workload w to referent b inside the pod spec and records the edge.
func (t *Tree) addPodRef(r *rand.Rand, w, b *GenRes) {
	n0 := len(t.Edges)
	t.addPodRef0(r, w, b)
	// keep only edges that are references "under the name-reference rules"
	if len(t.Edges) > n0 {
		e := t.Edges[len(t.Edges)-1]
		var parts []string
		for _, p := range e.Path {
			if s, ok := p.(string); ok {
				parts = append(parts, s)
			}
		}
		if !ruleFrozen(b.Kind, w.Kind, strings.Join(parts, "/")) {
			e.NoRule = true
			t.Edges[len(t.Edges)-1] = e
		}
	}
}

func (t *Tree) addPodRef0(r *rand.Rand, w, b *GenRes) {
	psp := podSpecPath(w.Kind)
	psI, _ := getPath(w.Obj, ipath(psp))
	ps := psI.(Obj)
	c0 := ps["containers"].([]interface{})[0].(Obj)
	add := func(list *[]interface{}, el Obj) int {
		*list = append(*list, el)
		return len(*list) - 1
	}
	lst := func(o Obj, k string) []interface{} {
		if v, ok := o[k].([]interface{}); ok {
			return v
		}
		return nil
	}
	switch b.Kind {
	case "ConfigMap":
		switch r.Intn(3) {
		case 0:
			vs := lst(ps, "volumes")
			vn := fmt.Sprintf("v%d", len(vs))
			add(&vs, Obj{"name": vn, "configMap": Obj{"name": b.Name}})
			ps["volumes"] = vs
			t.Edges = append(t.Edges, Edge{From: w.ID, Path: ipath(psp, "volumes", sel{"name", vn}, "configMap", "name"), To: b.ID})
		case 1:
			es := lst(c0, "env")
			en := fmt.Sprintf("E%d", len(es))
			add(&es, Obj{"name": en, "valueFrom": Obj{"configMapKeyRef": Obj{"name": b.Name, "key": "k"}}})
			c0["env"] = es
			t.Edges = append(t.Edges, Edge{From: w.ID, Path: ipath(psp, "containers", sel{"name", "main"}, "env", sel{"name", en}, "valueFrom", "configMapKeyRef", "name"), To: b.ID})
		default:
			es := lst(c0, "envFrom")
			i := add(&es, Obj{"configMapRef": Obj{"name": b.Name}})
			c0["envFrom"] = es
			t.Edges = append(t.Edges, Edge{From: w.ID, Path: ipath(psp, "containers", sel{"name", "main"}, "envFrom", i, "configMapRef", "name"), To: b.ID})
		}
	case "Secret":
		switch r.Intn(4) {
		case 0:
			vs := lst(ps, "volumes")
			vn := fmt.Sprintf("v%d", len(vs))
			add(&vs, Obj{"name": vn, "secret": Obj{"secretName": b.Name}})
			ps["volumes"] = vs
			t.Edges = append(t.Edges, Edge{From: w.ID, Path: ipath(psp, "volumes", sel{"name", vn}, "secret", "secretName"), To: b.ID})
		case 1:
			es := lst(c0, "env")
			en := fmt.Sprintf("E%d", len(es))
			add(&es, Obj{"name": en, "valueFrom": Obj{"secretKeyRef": Obj{"name": b.Name, "key": "p"}}})
			c0["env"] = es
			t.Edges = append(t.Edges, Edge{From: w.ID, Path: ipath(psp, "containers", sel{"name", "main"}, "env", sel{"name", en}, "valueFrom", "secretKeyRef", "name"), To: b.ID})
		case 2:
			es := lst(c0, "envFrom")
			i := add(&es, Obj{"secretRef": Obj{"name": b.Name}})
			c0["envFrom"] = es
			t.Edges = append(t.Edges, Edge{From: w.ID, Path: ipath(psp, "containers", sel{"name", "main"}, "envFrom", i, "secretRef", "name"), To: b.ID})
		default:
			es := lst(ps, "imagePullSecrets")
			i := add(&es, Obj{"name": b.Name})
			ps["imagePullSecrets"] = es
			t.Edges = append(t.Edges, Edge{From: w.ID, Path: ipath(psp, "imagePullSecrets", i, "name"), To: b.ID})
		}
	case "ServiceAccount":
		if _, has := ps["serviceAccountName"]; !has {
			ps["serviceAccountName"] = b.Name
			t.Edges = append(t.Edges, Edge{From: w.ID, Path: ipath(psp, "serviceAccountName"), To: b.ID})
		}
	case "PersistentVolumeClaim":
		vs := lst(ps, "volumes")
		vn := fmt.Sprintf("v%d", len(vs))
		add(&vs, Obj{"name": vn, "persistentVolumeClaim": Obj{"claimName": b.Name}})
		ps["volumes"] = vs
		t.Edges = append(t.Edges, Edge{From: w.ID, Path: ipath(psp, "volumes", sel{"name", vn}, "persistentVolumeClaim", "claimName"), To: b.ID})
	case "Service":
		if w.Kind == "StatefulSet" {
			if _, has := w.Obj["spec"].(Obj)["serviceName"]; !has {
				w.Obj["spec"].(Obj)["serviceName"] = b.Name
				t.Edges = append(t.Edges, Edge{From: w.ID, Path: ipath(nil, "spec", "serviceName"), To: b.ID})
			}
		}
	}
}

// genReferrers adds HPA / Ingress / RoleBinding objects referring to resources of the same layer.
func (t *Tree) genReferrers(r *rand.Rand, li int, here []*GenRes, uniq func(kind, name, ns string) bool) []*GenRes {
	var out []*GenRes
	for _, b := range here {
		if r.Intn(2) == 0 {
			continue
		}
		switch b.Kind {
		case "Deployment", "StatefulSet", "ReplicaSet", "ReplicationController":
			name := "hpa-" + b.Name
			if !uniq("HorizontalPodAutoscaler", name, b.NS) {
				continue
			}
			id := t.newID()
			o := Obj{"apiVersion": "autoscaling/v2", "kind": "HorizontalPodAutoscaler", "metadata": meta(id, name, b.NS, nil),
				"spec": Obj{"maxReplicas": float64(3), "scaleTargetRef": Obj{"apiVersion": hpaTargetVersion(r, b.Kind), "kind": b.Kind, "name": b.Name}}}
			g := t.addRes(li, "HorizontalPodAutoscaler", name, b.NS, o)
			out = append(out, g)
			e := Edge{From: id, Path: ipath(nil, "spec", "scaleTargetRef", "name"), To: b.ID}
			e.NoRule = !ruleFrozen(b.Kind, "HorizontalPodAutoscaler", "spec/scaleTargetRef/name")
			t.Edges = append(t.Edges, e)
		case "Service":
			name := "ing-" + b.Name
			if !uniq("Ingress", name, b.NS) {
				continue
			}
			id := t.newID()
			o := Obj{"apiVersion": "networking.k8s.io/v1", "kind": "Ingress", "metadata": meta(id, name, b.NS, nil),
				"spec": Obj{"rules": []interface{}{Obj{"host": "h", "http": Obj{"paths": []interface{}{Obj{"path": "/", "pathType": "Prefix",
					"backend": Obj{"service": Obj{"name": b.Name, "port": Obj{"number": float64(80)}}}}}}}}}}
			g := t.addRes(li, "Ingress", name, b.NS, o)
			out = append(out, g)
			e := Edge{From: id, Path: ipath(nil, "spec", "rules", 0, "http", "paths", 0, "backend", "service", "name"), To: b.ID}
			e.NoRule = !ruleFrozen("Service", "Ingress", "spec/rules/http/paths/backend/service/name")
			t.Edges = append(t.Edges, e)
		case "Role", "ClusterRole":
			for _, rbPrefix := range []string{"rb-", "rb2-"} {
				// (a second binding of the same role in the same namespace, with its own choice of subjects, now and then)
				if rbPrefix == "rb2-" && r.Intn(3) != 0 {
					continue
				}
				kind := "RoleBinding"
				ns := b.NS
				if b.Kind == "ClusterRole" && r.Intn(2) == 0 {
					kind, ns = "ClusterRoleBinding", ""
				}
				name := rbPrefix + b.Name
				if !uniq(kind, name, ns) {
					continue
				}
				id := t.newID()
				o := Obj{"apiVersion": "rbac.authorization.k8s.io/v1", "kind": kind, "metadata": meta(id, name, ns, nil),
					"roleRef": Obj{"apiGroup": "rbac.authorization.k8s.io", "kind": b.Kind, "name": b.Name}}
				var subj []interface{}
				var subjEdges []Edge
				for _, sa := range here {
					if sa.Kind == "ServiceAccount" && r.Intn(2) == 0 {
						sns := sa.NS
						if sns == "" {
							sns = "default"
						}
						subjEdges = append(subjEdges, Edge{Subject: true, From: id, Path: ipath(nil, "subjects", len(subj), "name"), To: sa.ID,
							NoRule: !ruleFrozen("ServiceAccount", kind, "subjects")})
						subj = append(subj, Obj{"kind": "ServiceAccount", "name": sa.Name, "namespace": sns})
					}
				}
				subj = append(subj, Obj{"kind": "User", "name": "someone", "apiGroup": "rbac.authorization.k8s.io"})
				o["subjects"] = subj
				g := t.addRes(li, kind, name, ns, o)
				out = append(out, g)
				e := Edge{From: id, Path: ipath(nil, "roleRef", "name"), To: b.ID}
				e.NoRule = !ruleFrozen(b.Kind, kind, "roleRef/name")
				t.Edges = append(t.Edges, e)
				t.Edges = append(t.Edges, subjEdges...)
			}
		}
	}
	return out
}

// addRBACCluster adds, to layer li, accounts in two namespaces, a role, and several bindings of that role in ONE
// namespace whose subject lists differ: the first names local accounts only (or none), a later one names an account
// of the other namespace.  Every subject is a reference edge.
func (t *Tree) addRBACCluster(r *rand.Rand, li int) {
	L := t.Layers[li]
	nsA, nsB := pickS(r, []string{"rbac-a", "rbac-a", ""}), pickS(r, []string{"rbac-b", "rbac-c"})
	tag := fmt.Sprintf("l%d", li)
	var docs []Obj
	add := func(kind, name, ns string, o Obj) *GenRes {
		g := t.addRes(li, kind, name, ns, o)
		docs = append(docs, o)
		return g
	}
	mkSA := func(name, ns string) *GenRes {
		id := t.newID()
		return add("ServiceAccount", name, ns, Obj{"apiVersion": "v1", "kind": "ServiceAccount", "metadata": meta(id, name, ns, nil)})
	}
	saA, saB := mkSA("acct-a-"+tag, nsA), mkSA("acct-b-"+tag, nsB)
	rid := t.newID()
	role := add("Role", "role-"+tag, nsA, Obj{"apiVersion": "rbac.authorization.k8s.io/v1", "kind": "Role", "metadata": meta(rid, "role-"+tag, nsA, nil),
		"rules": []interface{}{Obj{"apiGroups": []interface{}{""}, "resources": []interface{}{"pods"}, "verbs": []interface{}{"get"}}}})
	subjectSets := [][]*GenRes{{saA}, {saB}, {saA, saB}, {}}
	r.Shuffle(len(subjectSets), func(i, j int) { subjectSets[i], subjectSets[j] = subjectSets[j], subjectSets[i] })
	for i, set := range subjectSets[:2+r.Intn(2)] {
		id := t.newID()
		name := fmt.Sprintf("bind%d-%s", i, tag)
		var subj []interface{}
		for _, sa := range set {
			sns := sa.NS
			if sns == "" {
				sns = "default"
			}
			t.Edges = append(t.Edges, Edge{Subject: true, From: id, Path: ipath(nil, "subjects", len(subj), "name"), To: sa.ID,
				NoRule: !ruleFrozen("ServiceAccount", "RoleBinding", "subjects")})
			subj = append(subj, Obj{"kind": "ServiceAccount", "name": sa.Name, "namespace": sns})
		}
		subj = append(subj, Obj{"kind": "User", "name": "someone", "apiGroup": "rbac.authorization.k8s.io"})
		add("RoleBinding", name, nsA, Obj{"apiVersion": "rbac.authorization.k8s.io/v1", "kind": "RoleBinding", "metadata": meta(id, name, nsA, nil),
			"roleRef": Obj{"apiGroup": "rbac.authorization.k8s.io", "kind": "Role", "name": role.Name}, "subjects": subj})
		t.Edges = append(t.Edges, Edge{From: id, Path: ipath(nil, "roleRef", "name"), To: role.ID, NoRule: !ruleFrozen("Role", "RoleBinding", "roleRef/name")})
	}
	L.ResF = append(L.ResF, "rbac.yaml")
	L.Docs["rbac.yaml"] = docs
}

// ---- tree generation ----

func genTree(r *rand.Rand, f Feat) *Tree {
	t := &Tree{Feat: f}
	nl := 1 + r.Intn(f.MaxLayers)
	// topology: mostly a chain; sometimes a layer is listed by a later layer than the next one, which makes siblings
	t.Parent = make([]int, nl)
	for i := range t.Parent {
		t.Parent[i] = i + 1
		if i+2 < nl && f.Siblings && (r.Intn(3) == 0 || (f.SiblingHeavy && r.Intn(3) > 0)) {
			t.Parent[i] = i + 2 + r.Intn(nl-i-2)
		}
	}
	t.Parent[nl-1] = -1
	fam := nameFamilies[r.Intn(len(nameFamilies))]
	nsPool := []string{"", "", "ns1", "ns2"}
	usedID := map[string]bool{}
	for li := 0; li < nl; li++ {
		L := &KLayer{Dir: fmt.Sprintf("l%d", li), Kust: Obj{}, Files: map[string]string{}, Docs: map[string][]Obj{}}
		t.Layers = append(t.Layers, L)
		// resources of this layer
		nres := 1 + r.Intn(4)
		if li > 0 {
			nres = r.Intn(3)
		}
		if f.Dense {
			nres += 3
		}
		var here []*GenRes
		uniq := func(kind, name, ns string) bool {
			// original ids must be unambiguous across the whole tree (property domain): kind+name unique
			k := kind + "/" + name
			if usedID[k] {
				return false
			}
			usedID[k] = true
			return true
		}
		for i := 0; i < nres; i++ {
			ns := pickS(r, nsPool)
			switch r.Intn(10) {
			case 0, 1, 2, 3:
				kind := pickS(r, workloadKinds)
				name := pickS(r, fam)
				if !uniq(kind, name, ns) {
					continue
				}
				here = append(here, t.mkWorkload(r, li, kind, name, ns, map[string]string{"app": name}))
			case 4, 5:
				kind := pickS(r, []string{"ConfigMap", "Secret", "ServiceAccount", "PersistentVolumeClaim", "Service"})
				name := pickS(r, fam)
				if !uniq(kind, name, ns) {
					continue
				}
				here = append(here, t.mkSimple(r, li, kind, name, ns))
			case 6:
				kind := pickS(r, []string{"MyKind", "OtherKind", "Role", "ClusterRole", "Namespace", "CustomResourceDefinition", "ServiceAccount", "Role",
					"PriorityClass", "VolumeAttachment", "ClusterWidget", "Cluster"})
				name := pickS(r, fam)
				if kind == "Namespace" {
					name = pickS(r, []string{"ns1", "ns2", "ns3"})
				}
				if !uniq(kind, name, ns) {
					continue
				}
				here = append(here, t.mkSimple(r, li, kind, name, ns))
			default:
				kind := pickS(r, []string{"ConfigMap", "Secret"})
				name := pickS(r, fam)
				if !uniq(kind, name, ns) {
					continue
				}
				here = append(here, t.mkSimple(r, li, kind, name, ns))
			}
		}
		// reference edges: workloads of this layer refer to referents of this or inner layers in the same namespace
		if f.Refs {
			for _, w := range here {
				isW := false
				for _, k := range workloadKinds {
					if w.Kind == k {
						isW = true
					}
				}
				if !isW {
					continue
				}
				for _, b := range t.Res {
					if b == w || b.NS != w.NS || b.Gen {
						continue
					}
					switch b.Kind {
					case "ConfigMap", "Secret", "ServiceAccount", "PersistentVolumeClaim", "Service":
						if r.Intn(2) == 0 {
							t.addPodRef(r, w, b)
						}
					}
				}
			}
		}
		if f.Refs && f.Dense {
			here = append(here, t.genReferrers(r, li, here, uniq)...)
		}
		// distribute into files
		for i, gr := range here {
			fn := fmt.Sprintf("res%d.yaml", i/2)
			if len(L.Docs[fn]) == 0 {
				L.ResF = append(L.ResF, fn)
			}
			L.Docs[fn] = append(L.Docs[fn], gr.Obj)
		}
		t.genDirectives(r, li, L, here)
		t.genPatches(r, li, L)
	}
	return t
}

func (t *Tree) genDirectives(r *rand.Rand, li int, L *KLayer, here []*GenRes) {
	f := t.Feat
	if f.Prefix && (r.Intn(3) == 0 || (f.AffixHeavy && r.Intn(2) == 0)) {
		L.Prefix = pickS(r, []string{"p-", "dev-", "x"})
		L.Kust["namePrefix"] = L.Prefix
	}
	if f.Suffix && (r.Intn(3) == 0 || (f.AffixHeavy && r.Intn(2) == 0)) {
		L.Suffix = pickS(r, []string{"-s", "-v2", "z"})
		L.Kust["nameSuffix"] = L.Suffix
	}
	if f.Namespace && r.Intn(3) == 0 {
		L.NS = pickS(r, []string{"ns1", "ns2", "prod"})
		L.Kust["namespace"] = L.NS
	}
	if f.Labels && r.Intn(3) == 0 {
		L.Labels = map[string]string{pickS(r, []string{"env", "tier"}): pickS(r, []string{"dev", "prod"})}
		if f.Adversarial && r.Intn(2) == 0 {
			L.Labels["adv"] = pickS(r, []string{"yes", "012", "1e3", "true", "123", "null", "~"})
		}
		L.Kust["commonLabels"] = toObj(L.Labels)
	}
	if f.Labels && r.Intn(4) == 0 {
		mk := pickS(r, []string{"team", "owner", "team", "owner", "env", "tier"})
		L.MetaLabels = map[string]string{mk: pickS(r, []string{"a", "b"})}
		// a key that a commonLabels directive may also set is only written to metadata (no includeTemplates):
		// overriding a selector key in the template alone would be a self-inflicted mismatch
		L.MetaLabelsTmpl = r.Intn(2) == 0 && mk != "env" && mk != "tier"
		e := Obj{"pairs": toObj(L.MetaLabels)}
		if L.MetaLabelsTmpl {
			e["includeTemplates"] = true
		}
		L.Kust["labels"] = []interface{}{e}
	}
	if f.Annotations && r.Intn(3) == 0 {
		L.Annos = map[string]string{"note": pickS(r, []string{"hello", "x y"})}
		if f.Adversarial && r.Intn(2) == 0 {
			L.Annos["adv"] = pickS(r, []string{"yes", "012", "1e3", "true", "123", "null", "on"})
		}
		L.Kust["commonAnnotations"] = toObj(L.Annos)
	}
}

// genPatches adds images / replicas / patches directives addressing resources visible at this layer.
func (t *Tree) genPatches(r *rand.Rand, li int, L *KLayer) {
	f := t.Feat
	var visible []*GenRes
	for _, g := range t.Res {
		if t.Visible(g.Layer, li) && !g.Gen {
			visible = append(visible, g)
		}
	}
	if len(visible) == 0 {
		return
	}
	if f.Images && r.Intn(3) == 0 {
		e := Obj{"name": pickS(r, []string{"nginx", "busybox", "mynginx", "registry:5000/nginx"})}
		switch r.Intn(3) {
		case 0:
			e["newTag"] = pickS(r, []string{"2.0", "latest"})
		case 1:
			e["newName"] = "repo/other"
		default:
			e["newName"] = "repo/other"
			e["digest"] = "sha256:1234"
		}
		L.Images = append(L.Images, e)
		L.Kust["images"] = []interface{}{e}
	}
	if f.Replicas && r.Intn(4) == 0 {
		var cands []*GenRes
		for _, g := range visible {
			switch g.Kind {
			case "Deployment", "StatefulSet", "ReplicaSet", "ReplicationController":
				cands = append(cands, g)
			}
		}
		if len(cands) > 0 {
			g := cands[r.Intn(len(cands))]
			// the replicas entry names the resource by its name *at this layer*; only original names are
			// predictable here, so it is used when no inner layer renames
			renamed := false
			for _, j := range t.Chain(g.Layer) {
				if j == li {
					break
				}
				if t.Layers[j].Prefix != "" || t.Layers[j].Suffix != "" {
					renamed = true
				}
			}
			if !renamed {
				e := Obj{"name": g.Name, "count": float64(2 + r.Intn(5))}
				L.Replicas = append(L.Replicas, e)
				L.Kust["replicas"] = []interface{}{e}
			}
		}
	}
	var plist []interface{}
	if f.PatchSM && r.Intn(3) == 0 {
		g := visible[r.Intn(len(visible))]
		md := Obj{"name": g.Name}
		if g.NS != "" {
			md["namespace"] = g.NS
		}
		p := Obj{"apiVersion": apiVersionOf(g.Kind), "kind": g.Kind, "metadata": md}
		ps := PatchSpec{Target: g.ID}
		switch {
		case g.Kind == "MyKind" || g.Kind == "OtherKind":
			p["spec"] = Obj{"items": []interface{}{Obj{"name": "a", "v": float64(9)}}}
			ps.Paths = append(ps.Paths, ipath(nil, "spec", "items"))
		case (g.Kind == "Deployment" || g.Kind == "StatefulSet" || g.Kind == "DaemonSet") && r.Intn(2) == 0:
			p["spec"] = Obj{"template": Obj{"spec": Obj{"containers": []interface{}{Obj{"name": "main", "env": []interface{}{Obj{"name": "ADDED", "value": "1"}}}}}}}
			ps.Paths = append(ps.Paths, ipath(nil, "spec", "template", "spec", "containers"))
		default:
			md["annotations"] = Obj{"patched": pickS(r, []string{"yes", "v", "012"})}
			ps.Paths = append(ps.Paths, ipath(nil, "metadata", "annotations", "patched"))
		}
		b, _ := yaml.Marshal(p)
		if r.Intn(2) == 0 {
			fn := fmt.Sprintf("patch%d.yaml", len(L.Files))
			L.Files[fn] = string(b)
			plist = append(plist, Obj{"path": fn})
		} else {
			plist = append(plist, Obj{"patch": string(b)})
		}
		L.Patches = append(L.Patches, ps)
	}
	if f.PatchJSON && r.Intn(4) == 0 {
		g := visible[r.Intn(len(visible))]
		ops := "- op: add\n  path: /metadata/annotations/jp\n  value: \"" + pickS(r, []string{"v", "on", "1e3"}) + "\"\n"
		plist = append(plist, Obj{"target": Obj{"kind": g.Kind, "name": g.Name}, "patch": ops})
		L.Patches = append(L.Patches, PatchSpec{Target: g.ID, JSON: true, Paths: [][]interface{}{ipath(nil, "metadata", "annotations", "jp")}})
	}
	if len(plist) > 0 {
		L.Kust["patches"] = plist
	}
}

func toObj(m map[string]string) Obj {
	o := Obj{}
	for k, v := range m {
		o[k] = v
	}
	return o
}

// Write writes the tree under root. Layer i lists layer i-1 as its first resource.
func (t *Tree) Write(fs filesys.FileSystem, root string) error {
	for li, L := range t.Layers {
		dir := filepath.Join(root, L.Dir)
		if err := fs.MkdirAll(dir); err != nil {
			return err
		}
		var resList []interface{}
		if !t.BaseLast {
			for _, c := range t.children(li) {
				resList = append(resList, "../"+t.Layers[c].Dir)
			}
		}
		for _, fn := range L.ResF {
			var sb strings.Builder
			for i, d := range L.Docs[fn] {
				if i > 0 {
					sb.WriteString("---\n")
				}
				b, err := yaml.Marshal(d)
				if err != nil {
					return err
				}
				if t.Feat.Anchors {
					b = anchorLabels(d, b)
				}
				sb.Write(b)
			}
			if err := fs.WriteFile(filepath.Join(dir, fn), []byte(sb.String())); err != nil {
				return err
			}
			resList = append(resList, fn)
		}
		k := Obj{"apiVersion": "kustomize.config.k8s.io/v1beta1", "kind": "Kustomization"}
		useBases := false
		for kk, v := range L.Kust {
			if kk == "_bases" {
				useBases = true
				continue
			}
			k[kk] = v
		}
		if t.BaseLast {
			var bl []interface{}
			for _, c := range t.children(li) {
				if useBases {
					bl = append(bl, "../"+t.Layers[c].Dir)
				} else {
					resList = append(resList, "../"+t.Layers[c].Dir)
				}
			}
			if len(bl) > 0 {
				k["bases"] = bl
			}
		}
		if len(resList) > 0 {
			k["resources"] = resList
		}
		b, err := yaml.Marshal(k)
		if err != nil {
			return err
		}
		if err := fs.WriteFile(filepath.Join(dir, "kustomization.yaml"), b); err != nil {
			return err
		}
		for fn, c := range L.Files {
			if err := fs.MkdirAll(filepath.Dir(filepath.Join(dir, fn))); err != nil {
				return err
			}
			if err := fs.WriteFile(filepath.Join(dir, fn), []byte(c)); err != nil {
				return err
			}
		}
	}
	if t.PostWrite != nil {
		t.PostWrite(fs, root)
	}
	return nil
}

func (t *Tree) TopDir(root string) string {
	return filepath.Join(root, t.Layers[len(t.Layers)-1].Dir)
}

// Describe returns a compact replayable description (all files) of the tree.
func (t *Tree) Describe() interface{} {
	fs := filesys.MakeFsInMemory()
	_ = t.Write(fs, "/w")
	return dumpFS(fs, "/w")
}

func dumpFS(fs filesys.FileSystem, root string) map[string]string {
	out := map[string]string{}
	_ = fs.Walk(root, func(p string, info os.FileInfo, err error) error {
		if err != nil {
			return nil
		}
		if !info.IsDir() {
			b, _ := fs.ReadFile(p)
			out[p] = string(b)
		}
		return nil
	})
	return out
}

// runBuild runs the real build (krusty) and returns the YAML stream or the error string.
func runBuild(fs filesys.FileSystem, dir string, mod func(o *krusty.Options)) (string, error) {
	opts := krusty.MakeDefaultOptions()
	if mod != nil {
		mod(opts)
	}
	k := krusty.MakeKustomizer(opts)
	m, err := k.Run(fs, dir)
	if err != nil {
		return "", err
	}
	b, err := m.AsYaml()
	if err != nil {
		return "", err
	}
	return string(b), nil
}

// parseDocs parses a YAML stream with sigs.k8s.io/yaml (YAML 1.1 semantics, as the API server would).
func parseDocs(stream string) ([]Obj, error) {
	var out []Obj
	for _, d := range splitYAMLDocs(stream) {
		if strings.TrimSpace(d) == "" {
			continue
		}
		var o Obj
		if err := yaml.Unmarshal([]byte(d), &o); err != nil {
			return nil, err
		}
		if o != nil {
			out = append(out, o)
		}
	}
	return out, nil
}

func splitYAMLDocs(s string) []string {
	var docs []string
	var cur strings.Builder
	for _, line := range strings.SplitAfter(s, "\n") {
		if strings.TrimRight(line, "\n") == "---" {
			docs = append(docs, cur.String())
			cur.Reset()
			continue
		}
		cur.WriteString(line)
	}
	docs = append(docs, cur.String())
	return docs
}

func tracerOf(o Obj) string {
	v, ok := getPath(o, ipath(nil, "metadata", "annotations", tracerKey))
	if !ok {
		return ""
	}
	s, _ := v.(string)
	return s
}

func byTracer(docs []Obj) map[string][]Obj {
	m := map[string][]Obj{}
	for _, d := range docs {
		m[tracerOf(d)] = append(m[tracerOf(d)], d)
	}
	return m
}

func sortedStrs(m map[string]bool) []string {
	var ks []string
	for k := range m {
		ks = append(ks, k)
	}
	sort.Strings(ks)
	return ks
}

var _ = types.Kustomization{}

// anchorLabels rewrites a workload whose metadata labels, selector and template labels are the same single-entry map
// into the "define the labels once" style: `labels: &lbl {…}`, `matchLabels: *lbl`, template `labels: *lbl`.
// Chosen deterministically from the document (about one workload in three).
func anchorLabels(d Obj, b []byte) []byte {
	kind, _ := d["kind"].(string)
	switch kind {
	case "Deployment", "StatefulSet", "DaemonSet", "ReplicaSet":
	default:
		return b
	}
	md, _ := d["metadata"].(Obj)
	lb, _ := md["labels"].(Obj)
	if len(lb) != 1 {
		return b
	}
	app, _ := lb["app"].(string)
	if app == "" || len(app)%3 != 0 || strings.ContainsAny(app, ":#{}[],&*!|>'\"%@`") {
		return b
	}
	s := string(b)
	m1 := "  labels:\n    app: " + app + "\n"
	m2 := "    matchLabels:\n      app: " + app + "\n"
	m3 := "      labels:\n        app: " + app + "\n"
	if strings.Count(s, m1) < 1 || strings.Count(s, m2) != 1 || strings.Count(s, m3) != 1 {
		return b
	}
	i := strings.Index(s, m1)
	s = s[:i] + "  labels: &lbl\n    app: " + app + "\n" + s[i+len(m1):]
	s = strings.Replace(s, m2, "    matchLabels: *lbl\n", 1)
	s = strings.Replace(s, m3, "      labels: *lbl\n", 1)
	return []byte(s)
}
