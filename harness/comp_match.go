package main

import (
	"math/rand"
	"strings"
	"time"

	"sigs.k8s.io/kustomize/kyaml/yaml"
)

// match.path: yaml.PathMatcher (the fanning-out path walk behind replacement targets) on generated documents:
// field parts, indices, `[k=pattern]` / `[=pattern]` selectors whose pattern is a SUBSTRING of element values (the
// pattern is an unanchored regular expression), `*`, with and without creation.  The matched nodes are reported by
// their positions in the resulting document.  Model: lean/Kust/Match.lean.

func matchPositions(root *yaml.Node, res *yaml.RNode) []interface{} {
	pos := map[*yaml.Node][]interface{}{}
	var walk func(n *yaml.Node, p []interface{})
	walk = func(n *yaml.Node, p []interface{}) {
		if _, seen := pos[n]; !seen {
			pos[n] = append([]interface{}{}, p...)
		}
		switch n.Kind {
		case yaml.MappingNode:
			seen := map[string]bool{}
			for i := 0; i+1 < len(n.Content); i += 2 {
				k := n.Content[i].Value
				if seen[k] {
					continue
				}
				seen[k] = true
				walk(n.Content[i+1], append(append([]interface{}{}, p...), []interface{}{"k", k}))
			}
		case yaml.SequenceNode:
			for i, c := range n.Content {
				walk(c, append(append([]interface{}{}, p...), []interface{}{"i", i}))
			}
		}
	}
	walk(root, nil)
	out := []interface{}{}
	if res == nil {
		return out
	}
	for _, c := range res.YNode().Content {
		if p, ok := pos[c]; ok {
			out = append(out, p)
		} else {
			out = append(out, []interface{}{[]interface{}{"?", "detached"}})
		}
	}
	return out
}

func init() {
	components["match.path"] = func(r *rand.Rand, tier string) (map[string]interface{}, func() (interface{}, string)) {
		doc := genMap(r, depthFor(tier)+1, false)
		path := genPathFor(r, doc, 4)
		for i, p := range path {
			switch {
			case strings.HasPrefix(p, "[") && strings.Contains(p, "=") && r.Intn(3) == 0:
				// a pattern that is a proper substring of the value: selects every element CONTAINING it
				eq := strings.Index(p, "=")
				v := p[eq+1 : len(p)-1]
				if len(v) > 1 {
					path[i] = p[:eq+1] + v[:1+r.Intn(len(v)-1)] + "]"
				} else if r.Intn(2) == 0 {
					path[i] = p[:eq+1] + "]"
				}
			case strings.HasPrefix(p, "[") && strings.Contains(p, "=") && r.Intn(6) == 0:
				// anchored patterns; `v^` and `$v` can never match, not even the element created from them
				eq := strings.Index(p, "=")
				v := p[eq+1 : len(p)-1]
				path[i] = p[:eq+1] + pickS(r, []string{"^" + v, v + "$", "^" + v + "$", v + "^", "$" + v}) + "]"
			case (strings.HasPrefix(p, "[") || p == "0" || p == "1" || p == "-") && r.Intn(5) == 0:
				path[i] = "*"
			}
		}
		if r.Intn(12) == 0 {
			path = genPath(r, 4)
		}
		create := 0
		if r.Intn(2) == 0 {
			create = 1 + r.Intn(3)
		}
		args := map[string]interface{}{"doc": doc, "path": path, "create": create, "ns": nsGraph(doc, path)}
		return args, func() (interface{}, string) {
			rn := yaml.NewRNode(wireToNode(doc))
			kinds := map[int]yaml.Kind{0: 0, 1: yaml.ScalarNode, 2: yaml.MappingNode, 3: yaml.SequenceNode}
			type result struct {
				res *yaml.RNode
				err error
			}
			ch := make(chan result, 1)
			go func() {
				res, err := rn.Pipe(&yaml.PathMatcher{Path: append([]string{}, path...), Create: kinds[create]})
				ch <- result{res, err}
			}()
			var x result
			select {
			case x = <-ch:
			case <-time.After(20 * time.Second):
				// the walk does not return (the goroutine is left behind; the run ends soon after)
				return map[string]interface{}{"hang": "PathMatcher did not return within 20s"}, "hang"
			}
			if x.err != nil {
				e := x.err.Error()
				switch {
				case strings.Contains(e, "is not matched by it"):
					return map[string]interface{}{"err": "create-loop"}, "err-create-loop"
				case strings.Contains(e, "error parsing regexp"):
					return map[string]interface{}{"err": "unmodelled"}, "skip-bad-regexp"
				case strings.Contains(e, "elements found"):
					return map[string]interface{}{"err": "index"}, "err-index"
				case strings.Contains(e, "list path element must contain"):
					return map[string]interface{}{"err": "arg"}, "err-arg"
				}
				return map[string]interface{}{"err": classifyKyamlErr(x.err)}, "err-" + classifyKyamlErr(x.err)
			}
			ps := matchPositions(rn.YNode(), x.res)
			for _, p := range ps {
				if l := p.([]interface{}); len(l) == 1 && l[0].([]interface{})[0] == "?" {
					// an empty path part with creation: SetField("", fresh) overwrites a scalar in place and the walk goes on
					// in a node that is not part of the document (outside the tree model; counted)
					return map[string]interface{}{"err": "unmodelled"}, "skip-detached"
				}
			}
			cl := "none"
			switch {
			case len(ps) == 1:
				cl = "one"
			case len(ps) > 1:
				cl = "many"
			}
			if create != 0 {
				cl += "-create"
			}
			return map[string]interface{}{"ok": map[string]interface{}{"doc": rnodeToWire(rn), "pos": ps}}, cl
		}
	}
}
