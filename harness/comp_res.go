package main

import (
	"fmt"
	"math/rand"
	"strings"

	"sigs.k8s.io/kustomize/api/builtins"
	"sigs.k8s.io/kustomize/api/provider"
	"sigs.k8s.io/kustomize/api/resmap"
	"sigs.k8s.io/kustomize/api/resource"
	"sigs.k8s.io/kustomize/api/types"
	"sigs.k8s.io/kustomize/kyaml/filesys"
	"sigs.k8s.io/kustomize/kyaml/resid"
	"sigs.k8s.io/yaml"
)

var depProvider = provider.NewDefaultDepProvider()

func rf() *resource.Factory { return depProvider.GetResourceFactory() }

type wid struct{ Group, Version, Kind, Name, NS string }

func (w wid) json() map[string]interface{} {
	return map[string]interface{}{"group": w.Group, "version": w.Version, "kind": w.Kind, "name": w.Name, "ns": w.NS}
}

func widOf(id resid.ResId) wid { return wid{id.Group, id.Version, id.Kind, id.Name, id.Namespace} }

func (w wid) apiVersion() string {
	if w.Group == "" {
		return w.Version
	}
	return w.Group + "/" + w.Version
}

func (w wid) resource() (*resource.Resource, error) {
	md := map[string]interface{}{}
	if w.Name != "" {
		md["name"] = w.Name
	}
	if w.NS != "" {
		md["namespace"] = w.NS
	}
	o := map[string]interface{}{"apiVersion": w.apiVersion(), "kind": w.Kind, "metadata": md}
	b, _ := yaml.Marshal(o)
	return rf().FromBytes(b)
}

var resKinds = [][3]string{{"", "v1", "ConfigMap"}, {"", "v1", "Secret"}, {"apps", "v1", "Deployment"}, {"", "v1", "Namespace"},
	{"rbac.authorization.k8s.io", "v1", "ClusterRole"}, {"rbac.authorization.k8s.io", "v1", "Role"}, {"example.com", "v1", "MyKind"},
	{"apiextensions.k8s.io", "v1", "CustomResourceDefinition"}, {"", "v1", "Service"}, {"admissionregistration.k8s.io", "v1", "ValidatingWebhookConfiguration"},
	{"batch", "v1", "CronJob"}, {"foo", "v1", "Namespace"}, {"", "v1", "Pod"}}

func genWid(r *rand.Rand) wid {
	k := resKinds[r.Intn(len(resKinds))]
	return wid{k[0], k[1], k[2], pickS(r, []string{"a", "b", "app", "a-b", "x"}), pickS(r, []string{"", "", "default", "ns1", "ns2"})}
}

func csGraph(ws ...wid) map[string]interface{} {
	g := map[string]interface{}{}
	for _, w := range ws {
		gvk := resid.NewGvk(w.Group, w.Version, w.Kind)
		if gvk.IsClusterScoped() {
			g[w.Group+"/"+w.Version+"/"+w.Kind] = true
		}
	}
	return g
}

func widList(ws []wid) []interface{} {
	out := make([]interface{}, len(ws))
	for i, w := range ws {
		out[i] = w.json()
	}
	return out
}

func csvAnno(r *resource.Resource, key string) []interface{} {
	a := r.GetAnnotations()
	v, ok := a[key]
	if !ok {
		return []interface{}{}
	}
	out := []interface{}{}
	for _, s := range strings.Split(v, ",") {
		out = append(out, s)
	}
	return out
}

func init() {
	components["res.append"] = func(r *rand.Rand, tier string) (map[string]interface{}, func() (interface{}, string)) {
		n := 1 + r.Intn(6)
		ws := make([]wid, n)
		for i := range ws {
			ws[i] = genWid(r)
		}
		args := map[string]interface{}{"ids": widList(ws), "cs": csGraph(ws...)}
		return args, func() (interface{}, string) {
			m := resmap.New()
			for _, w := range ws {
				res, err := w.resource()
				if err != nil {
					return map[string]interface{}{"err": "load"}, "err-load"
				}
				if err := m.Append(res); err != nil {
					return map[string]interface{}{"err": "conflict"}, "conflict"
				}
			}
			var out []wid
			for _, res := range m.Resources() {
				out = append(out, widOf(res.CurId()))
			}
			return map[string]interface{}{"ok": widList(out)}, "ok"
		}
	}
	components["res.layers"] = func(r *rand.Rand, tier string) (map[string]interface{}, func() (interface{}, string)) {
		w := genWid(r)
		nl := 1 + r.Intn(3)
		var ls []interface{}
		type lay struct{ ns, pre, suf string }
		var lays []lay
		for i := 0; i < nl; i++ {
			l := lay{}
			if r.Intn(2) == 0 {
				l.ns = pickS(r, []string{"ns1", "prod", "default"})
			}
			if r.Intn(2) == 0 {
				l.pre = pickS(r, []string{"p-", "x"})
			}
			if r.Intn(2) == 0 {
				l.suf = pickS(r, []string{"-s", "z"})
			}
			lays = append(lays, l)
			ls = append(ls, map[string]interface{}{"ns": l.ns, "pre": l.pre, "suf": l.suf})
		}
		args := map[string]interface{}{"id": w.json(), "layers": ls, "cs": csGraph(w)}
		return args, func() (interface{}, string) {
			res, err := w.resource()
			if err != nil {
				return map[string]interface{}{"err": "load"}, "err-load"
			}
			m := resmap.New()
			m.Append(res)
			ph := resmap.NewPluginHelpers(nil, nil, resmap.NewFactory(rf()), nil)
			_ = ph
			for _, l := range lays {
				if l.ns != "" {
					p := builtins.NamespaceTransformerPlugin{ObjectMeta: types.ObjectMeta{Namespace: l.ns},
						FieldSpecs: nsFieldSpecs(), SetRoleBindingSubjects: "defaultOnly"}
					if err := p.Transform(m); err != nil {
						return map[string]interface{}{"err": "ns"}, "err-ns"
					}
				}
				// the configurators create the prefix/suffix plugins only for a non-empty affix
				if l.pre != "" {
					p := builtins.PrefixTransformerPlugin{Prefix: l.pre, FieldSpecs: []types.FieldSpec{{Path: "metadata/name"}}}
					if err := p.Transform(m); err != nil {
						return map[string]interface{}{"err": "prefix"}, "err-prefix"
					}
				}
				if l.suf != "" {
					p := builtins.SuffixTransformerPlugin{Suffix: l.suf, FieldSpecs: []types.FieldSpec{{Path: "metadata/name"}}}
					if err := p.Transform(m); err != nil {
						return map[string]interface{}{"err": "suffix"}, "err-suffix"
					}
				}
			}
			rr := m.Resources()[0]
			var prev []wid
			for _, id := range rr.PrevIds() {
				prev = append(prev, widOf(id))
			}
			return map[string]interface{}{"ok": map[string]interface{}{"cur": widOf(rr.CurId()).json(), "prev": widList(prev),
				"prefixes": csvAnno(rr, "internal.config.kubernetes.io/prefixes"), "suffixes": csvAnno(rr, "internal.config.kubernetes.io/suffixes")}}, fmt.Sprintf("ok-%d-layers", len(lays))
		}
	}
	components["res.legacysort"] = func(r *rand.Rand, tier string) (map[string]interface{}, func() (interface{}, string)) {
		n := 2 + r.Intn(7)
		var ws []wid
		seen := map[string]bool{}
		for i := 0; i < n; i++ {
			w := genWid(r)
			gvk := resid.NewGvk(w.Group, w.Version, w.Kind)
			if gvk.IsClusterScoped() {
				w.NS = ""
			}
			if w.NS == "default" {
				w.NS = ""
			}
			k := fmt.Sprint(w)
			if seen[k] {
				continue
			}
			seen[k] = true
			ws = append(ws, w)
		}
		args := map[string]interface{}{"ids": widList(ws), "cs": csGraph(ws...)}
		return args, func() (interface{}, string) {
			var sb strings.Builder
			for i, w := range ws {
				if i > 0 {
					sb.WriteString("---\n")
				}
				md := map[string]interface{}{"name": w.Name}
				if w.NS != "" {
					md["namespace"] = w.NS
				}
				b, _ := yaml.Marshal(map[string]interface{}{"apiVersion": w.apiVersion(), "kind": w.Kind, "metadata": md})
				sb.Write(b)
			}
			fs := filesys.MakeFsInMemory()
			fs.MkdirAll("/s")
			fs.WriteFile("/s/r.yaml", []byte(sb.String()))
			fs.WriteFile("/s/kustomization.yaml", []byte("resources: [r.yaml]\nsortOptions:\n  order: legacy\n"))
			out, err := runBuild(fs, "/s", nil)
			if err != nil {
				return map[string]interface{}{"err": "build"}, "err-build"
			}
			docs, _ := parseDocs(out)
			var res []wid
			for _, d := range docs {
				av, _ := d["apiVersion"].(string)
				g, v := resid.ParseGroupVersion(av)
				res = append(res, wid{g, v, fmt.Sprint(d["kind"]), outName(d), outNS(d)})
			}
			return map[string]interface{}{"ok": widList(res)}, fmt.Sprintf("ok-%d", min(len(ws), 6))
		}
	}
}

func nsFieldSpecs() []types.FieldSpec {
	return []types.FieldSpec{
		{Path: "metadata/name", Gvk: resid.Gvk{Kind: "Namespace"}},
		{Path: "metadata/namespace", CreateIfNotPresent: true},
	}
}
