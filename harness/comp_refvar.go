package main

import (
	"fmt"
	"math/rand"
	"strings"

	"sigs.k8s.io/kustomize/api/filters/refvar"
)

// refvar.expand: refvar.DoReplacements on strings over the alphabet of the variable syntax ($, parentheses, names,
// plain text), with a mapping that knows some names and wraps the others back (as the real replacer does).
// Model: lean/Kust/RefVar.lean.
func init() {
	components["refvar.expand"] = func(r *rand.Rand, tier string) (map[string]interface{}, func() (interface{}, string)) {
		toks := []string{"$", "$", "(", ")", "POD", "V", "W", "x", " ", "=", "$(", "$$", "$(POD)", "$(V)", "$(NOPE)", "text", ";"}
		var sb strings.Builder
		for i := r.Intn(8); i > 0; i-- {
			sb.WriteString(pickS(r, toks))
		}
		in := sb.String()
		known := map[string]string{"POD": "web-0", "V": "7", "W": ""}
		kw := map[string]interface{}{}
		for k, v := range known {
			kw[k] = v
		}
		args := map[string]interface{}{"input": in, "known": kw}
		return args, func() (interface{}, string) {
			m := func(key string) interface{} {
				if v, ok := known[key]; ok {
					return v
				}
				return "$(" + key + ")"
			}
			out := refvar.DoReplacements(in, m)
			s := fmt.Sprintf("%v", out)
			cl := "unchanged"
			if s != in {
				cl = "changed"
			}
			if strings.HasPrefix(in, "$(") && strings.HasSuffix(in, ")") && strings.Count(in, ")") == 1 {
				// exactly one reference: the mapped value itself comes back
				return map[string]interface{}{"whole": in[2 : len(in)-1]}, "whole"
			}
			return map[string]interface{}{"text": s}, cl
		}
	}
}
