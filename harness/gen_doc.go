package main

import (
	"math/rand"

	"sigs.k8s.io/kustomize/kyaml/yaml"
)

// ---- document generator over a small alphabet (DESIGN §2.2) ----

var keyAlphabet = []string{"a", "b", "c", "name", "k"}
var scalarDict = [][2]string{ // (tag, value)
	{"!!str", "x"}, {"!!str", "y"}, {"!!str", "app"}, {"!!int", "1"}, {"!!int", "2"}, {"!!bool", "true"},
	{"!!str", "yes"}, {"!!str", "on"}, {"!!str", "012"}, {"!!str", "1e3"}, {"!!str", ""}, {"!!null", "null"},
	{"!!null", "~"}, {"!!float", "1.5"}, {"!!str", "a b"}, {"", "x"}, {"", "1"}, {"!!str", "null"}, {"!!str", "1"},
}

func pick(r *rand.Rand, xs []string) string { return xs[r.Intn(len(xs))] }

func genScalar(r *rand.Rand) interface{} {
	s := scalarDict[r.Intn(len(scalarDict))]
	style := 0
	if s[0] == "!!str" || s[0] == "" {
		switch r.Intn(5) {
		case 0:
			style = int(yaml.DoubleQuotedStyle)
		case 1:
			style = int(yaml.SingleQuotedStyle)
		}
		// a plain string that a parser would not read as a string must be quoted to be a faithful parse result
		if s[0] == "!!str" && style == 0 && (s[1] == "" || s[1] == "null" || s[1] == "1" || s[1] == "012" || s[1] == "1e3") {
			style = int(yaml.DoubleQuotedStyle)
		}
	}
	return []interface{}{"s", s[0], s[1], style}
}

// genNode: depth-bounded random tree. dupKeys allows duplicate keys (malformed stream).
func genNode(r *rand.Rand, depth int, dupKeys bool) interface{} {
	k := r.Intn(10)
	if depth <= 0 || k < 3 {
		return genScalar(r)
	}
	if k < 7 {
		return genMap(r, depth, dupKeys)
	}
	return genSeq(r, depth, dupKeys)
}

func genMap(r *rand.Rand, depth int, dupKeys bool) interface{} {
	n := r.Intn(4)
	fs := []interface{}{}
	used := map[string]bool{}
	for i := 0; i < n; i++ {
		key := pick(r, keyAlphabet)
		if used[key] && !dupKeys {
			continue
		}
		used[key] = true
		fs = append(fs, []interface{}{key, genNode(r, depth-1, dupKeys)})
	}
	style := 0
	if r.Intn(6) == 0 {
		style = int(yaml.FlowStyle)
	}
	return []interface{}{"m", style, fs}
}

func genSeq(r *rand.Rand, depth int, dupKeys bool) interface{} {
	n := r.Intn(4)
	is := []interface{}{}
	mode := r.Intn(4) // 0: maps with name, 1: scalars, 2,3: mixed
	for i := 0; i < n; i++ {
		switch {
		case mode == 0 || (mode >= 2 && r.Intn(2) == 0):
			m := genMap(r, depth-1, dupKeys).([]interface{})
			if r.Intn(4) != 0 {
				fs := m[2].([]interface{})
				nm := []interface{}{"name", []interface{}{"s", "!!str", pick(r, []string{"x", "y", "app", "myapp2"}), 0}}
				// put `name` first unless already present
				has := false
				for _, f := range fs {
					if f.([]interface{})[0] == "name" {
						has = true
					}
				}
				if !has {
					m[2] = append([]interface{}{nm}, fs...)
				}
			}
			is = append(is, m)
		case mode == 1:
			is = append(is, genScalar(r))
		default:
			is = append(is, genNode(r, depth-1, dupKeys))
		}
	}
	style := 0
	if r.Intn(6) == 0 {
		style = int(yaml.FlowStyle)
	}
	return []interface{}{"q", style, is}
}

// nsGraph collects IsValueNonString on every scalar value appearing in the given wire nodes / strings.
func nsGraph(things ...interface{}) map[string]interface{} {
	g := map[string]interface{}{}
	var walk func(w interface{})
	walk = func(w interface{}) {
		switch v := w.(type) {
		case nil:
		case string:
			if yaml.IsValueNonString(v) {
				g[v] = true
			}
		case []string:
			for _, s := range v {
				walk(s)
			}
		case []interface{}:
			if len(v) == 0 {
				return
			}
			switch v[0] {
			case "s":
				walk(v[2].(string))
			case "m":
				for _, kv := range v[2].([]interface{}) {
					walk(kv.([]interface{})[1])
				}
			case "q":
				for _, c := range v[2].([]interface{}) {
					walk(c)
				}
			}
		}
	}
	for _, t := range things {
		walk(t)
	}
	return g
}

func depthFor(tier string) int {
	if tier == "thorough" {
		return 5
	}
	return 3
}
