package main

import (
	"encoding/base64"
	"math/rand"
	"sort"
	"strings"

	"sigs.k8s.io/kustomize/api/hasher"
	"sigs.k8s.io/kustomize/api/ifc"
	pkgloader "sigs.k8s.io/kustomize/api/pkg/loader"
	"sigs.k8s.io/kustomize/api/kv"
	"sigs.k8s.io/kustomize/api/resmap"
	"sigs.k8s.io/kustomize/api/types"
	"sigs.k8s.io/kustomize/kyaml/filesys"
	"sigs.k8s.io/kustomize/kyaml/yaml"
	k8syaml "sigs.k8s.io/yaml"
)

var hashVals = []string{"v", "1", "hello world", "a=b", "x<y>&z", "quo\"te", "back\\slash", "multi\nline", "tab\there", "", "yes", "ünï"}

func dictWire(m map[string]string) []interface{} {
	keys := make([]string, 0, len(m))
	for k := range m {
		keys = append(keys, k)
	}
	sort.Strings(keys)
	out := []interface{}{}
	for _, k := range keys {
		out = append(out, []interface{}{k, m[k]})
	}
	return out
}

func init() {
	components["gen.hash"] = func(r *rand.Rand, tier string) (map[string]interface{}, func() (interface{}, string)) {
		kind := pick(r, []string{"ConfigMap", "ConfigMap", "Secret"})
		data := map[string]string{}
		for i := 0; i < r.Intn(4); i++ {
			data[pick(r, []string{"a", "b", "c.d", "K_1", "z-9"})] = pick(r, hashVals)
		}
		hasData := len(data) > 0 || r.Intn(2) == 0
		typ := pick(r, []string{"Opaque", "kubernetes.io/tls", ""})
		args := map[string]interface{}{"kind": kind, "data": dictWire(data), "hasData": hasData, "type": typ}
		return args, func() (interface{}, string) {
			o := map[string]interface{}{"apiVersion": "v1", "kind": kind,
				"metadata": map[string]interface{}{"name": pick(r, []string{"n1", "other"}), "labels": map[string]interface{}{"l": pick(r, []string{"x", "y"})}}}
			if hasData {
				d := map[string]interface{}{}
				for k, v := range data {
					d[k] = v
				}
				o["data"] = d
			}
			if kind == "Secret" && typ != "" {
				o["type"] = typ
			}
			b, _ := k8syaml.Marshal(o)
			n, err := yaml.Parse(string(b))
			if err != nil {
				return map[string]interface{}{"err": "parse"}, "err"
			}
			h, err := (&hasher.Hasher{}).Hash(n)
			if err != nil {
				return map[string]interface{}{"err": "hash"}, "err"
			}
			return map[string]interface{}{"ok": h}, kind
		}
	}
	components["gen.literals"] = func(r *rand.Rand, tier string) (map[string]interface{}, func() (interface{}, string)) {
		var lits []string
		for i := 0; i < 1+r.Intn(4); i++ {
			k := pick(r, []string{"a", "b", "c", "d.e", "f", "g", "h"})
			if r.Intn(15) == 0 {
				k = ""
			}
			v := pick(r, []string{"1", "x", "\"q\"", "'s'", "\"", "v=w", "", "\"a'", "'x\"y'"})
			if r.Intn(10) == 0 {
				lits = append(lits, k) // no '='
			} else {
				lits = append(lits, k+"="+v)
			}
		}
		args := map[string]interface{}{"literals": lits}
		return args, func() (interface{}, string) {
			ldr := kvLoader()
			pairs, err := ldr.Load(types.KvPairSources{LiteralSources: lits})
			if err != nil {
				return map[string]interface{}{"err": "literal"}, "err-literal"
			}
			seen := map[string]bool{}
			m := map[string]string{}
			for _, p := range pairs {
				if seen[p.Key] {
					return map[string]interface{}{"err": "dupkey"}, "err-dup"
				}
				seen[p.Key] = true
				m[p.Key] = p.Value
			}
			return map[string]interface{}{"ok": dictWire(m)}, "ok"
		}
	}
	components["gen.absorb"] = func(r *rand.Rand, tier string) (map[string]interface{}, func() (interface{}, string)) {
		n := 1 + r.Intn(4)
		type op struct {
			b    string
			data map[string]string
			bin  map[string]string // key -> raw bytes that are not valid UTF-8 (they end up in binaryData)
			nh   bool
		}
		var ops []op
		var wops []interface{}
		for i := 0; i < n; i++ {
			b := pick(r, []string{"merge", "merge", "merge", "replace", "replace", "merge", "replace", "create"})
			if i == 0 {
				b = pick(r, []string{"", "create", "create", "", "create", "", "merge", "replace"})
			}
			d := map[string]string{}
			for j := 0; j < 1+r.Intn(3); j++ {
				d[pick(r, []string{"a", "b", "c"})] = pick(r, []string{"1", "2", "x", ""})
			}
			bin := map[string]string{}
			if r.Intn(3) == 0 {
				for j := 0; j < 1+r.Intn(2); j++ {
					k := pick(r, []string{"p", "q", "a"})
					if _, clash := d[k]; !clash {
						bin[k] = pick(r, []string{"\xff\xfe\x01", "\x80abc", "\xc3\x28"})
					}
				}
			}
			binW := map[string]string{}
			for k, v := range bin {
				binW[k] = base64.StdEncoding.EncodeToString([]byte(v))
			}
			nh := r.Intn(4) != 0
			ops = append(ops, op{b, d, bin, nh})
			wops = append(wops, map[string]interface{}{"behavior": b, "data": dictWire(d), "bin": dictWire(binW), "needsHash": nh})
		}
		args := map[string]interface{}{"ops": wops}
		return args, func() (interface{}, string) {
			rmf := resmap.NewFactory(rf())
			acc := resmap.New()
			anyBin := false
			for _, o := range ops {
				var lits, files []string
				keys := make([]string, 0)
				for k := range o.data {
					keys = append(keys, k)
				}
				sort.Strings(keys)
				for _, k := range keys {
					lits = append(lits, k+"="+o.data[k])
				}
				fs := filesys.MakeFsInMemory()
				bkeys := make([]string, 0)
				for k := range o.bin {
					bkeys = append(bkeys, k)
				}
				sort.Strings(bkeys)
				for _, k := range bkeys {
					fs.WriteFile("/"+k+".bin", []byte(o.bin[k]))
					files = append(files, k+"="+k+".bin")
					anyBin = true
				}
				a := types.ConfigMapArgs{GeneratorArgs: types.GeneratorArgs{Name: "cm", Behavior: o.b,
					KvPairSources: types.KvPairSources{LiteralSources: lits, FileSources: files},
					Options:       &types.GeneratorOptions{DisableNameSuffixHash: !o.nh}}}
				ldr := kv.NewLoader(pkgloader.NewFileLoaderAtRoot(fs), depProvider.GetFieldValidator())
				m, err := rmf.FromConfigMapArgs(ldr, a)
				if err != nil {
					return map[string]interface{}{"err": "gen"}, "err-gen"
				}
				if err := acc.AbsorbAll(m); err != nil {
					cls := "exists"
					if strings.Contains(err.Error(), "does not exist") {
						cls = "absent"
					}
					return map[string]interface{}{"err": cls}, "err-" + cls
				}
			}
			res := acc.Resources()[0]
			cl := "ok"
			if anyBin {
				cl = "ok-binary"
			}
			return map[string]interface{}{"ok": map[string]interface{}{"data": dictWire(res.GetDataMap()), "needsHash": res.NeedHashSuffix(), "bin": dictWire(res.GetBinaryDataMap())}}, cl
		}
	}
}

func kvLoader() ifc.KvLoader {
	return kv.NewLoader(pkgloader.NewFileLoaderAtRoot(filesys.MakeFsInMemory()), depProvider.GetFieldValidator())
}
