package main

import (
	"encoding/base64"
	"fmt"
	"math/rand"
	"sort"
	"strings"

	"sigs.k8s.io/kustomize/api/hasher"
	"sigs.k8s.io/kustomize/api/ifc"
	pkgloader "sigs.k8s.io/kustomize/api/pkg/loader"
	"sigs.k8s.io/kustomize/api/kv"
	"sigs.k8s.io/kustomize/api/resmap"
	"sigs.k8s.io/kustomize/api/types"
	"sigs.k8s.io/kustomize/kyaml/filesys"
	"sigs.k8s.io/kustomize/kyaml/yaml"
	k8syaml "sigs.k8s.io/yaml"
)

var hashVals = []string{"v", "1", "hello world", "a=b", "x<y>&z", "quo\"te", "back\\slash", "multi\nline", "tab\there", "", "yes", "ünï"}

func dictWire(m map[string]string) []interface{} {
	keys := make([]string, 0, len(m))
	for k := range m {
		keys = append(keys, k)
	}
	sort.Strings(keys)
	out := []interface{}{}
	for _, k := range keys {
		out = append(out, []interface{}{k, m[k]})
	}
	return out
}

func init() {
	components["gen.hash"] = func(r *rand.Rand, tier string) (map[string]interface{}, func() (interface{}, string)) {
		kind := pick(r, []string{"ConfigMap", "ConfigMap", "Secret"})
		data := map[string]string{}
		for i := 0; i < r.Intn(4); i++ {
			data[pick(r, []string{"a", "b", "c.d", "K_1", "z-9"})] = pick(r, hashVals)
		}
		hasData := len(data) > 0 || r.Intn(2) == 0
		typ := pick(r, []string{"Opaque", "kubernetes.io/tls", ""})
		args := map[string]interface{}{"kind": kind, "data": dictWire(data), "hasData": hasData, "type": typ}
		return args, func() (interface{}, string) {
			o := map[string]interface{}{"apiVersion": "v1", "kind": kind,
				"metadata": map[string]interface{}{"name": pick(r, []string{"n1", "other"}), "labels": map[string]interface{}{"l": pick(r, []string{"x", "y"})}}}
			if hasData {
				d := map[string]interface{}{}
				for k, v := range data {
					d[k] = v
				}
				o["data"] = d
			}
			if kind == "Secret" && typ != "" {
				o["type"] = typ
			}
			b, _ := k8syaml.Marshal(o)
			n, err := yaml.Parse(string(b))
			if err != nil {
				return map[string]interface{}{"err": "parse"}, "err"
			}
			h, err := (&hasher.Hasher{}).Hash(n)
			if err != nil {
				return map[string]interface{}{"err": "hash"}, "err"
			}
			return map[string]interface{}{"ok": h}, kind
		}
	}
	components["gen.literals"] = func(r *rand.Rand, tier string) (map[string]interface{}, func() (interface{}, string)) {
		var lits []string
		for i := 0; i < 1+r.Intn(4); i++ {
			k := pick(r, []string{"a", "b", "c", "d.e", "f", "g", "h"})
			if r.Intn(15) == 0 {
				k = ""
			}
			v := pick(r, []string{"1", "x", "\"q\"", "'s'", "\"", "v=w", "", "\"a'", "'x\"y'"})
			if r.Intn(10) == 0 {
				lits = append(lits, k) // no '='
			} else {
				lits = append(lits, k+"="+v)
			}
		}
		args := map[string]interface{}{"literals": lits}
		return args, func() (interface{}, string) {
			ldr := kvLoader()
			pairs, err := ldr.Load(types.KvPairSources{LiteralSources: lits})
			if err != nil {
				return map[string]interface{}{"err": "literal"}, "err-literal"
			}
			seen := map[string]bool{}
			m := map[string]string{}
			for _, p := range pairs {
				if seen[p.Key] {
					return map[string]interface{}{"err": "dupkey"}, "err-dup"
				}
				seen[p.Key] = true
				m[p.Key] = p.Value
			}
			return map[string]interface{}{"ok": dictWire(m)}, "ok"
		}
	}
	components["gen.absorb"] = func(r *rand.Rand, tier string) (map[string]interface{}, func() (interface{}, string)) {
		n := 1 + r.Intn(4)
		type op struct {
			b    string
			data map[string]string
			bin  map[string]string // key -> raw bytes that are not valid UTF-8 (they end up in binaryData)
			nh   bool
		}
		var ops []op
		var wops []interface{}
		for i := 0; i < n; i++ {
			b := pick(r, []string{"merge", "merge", "merge", "replace", "replace", "merge", "replace", "create"})
			if i == 0 {
				b = pick(r, []string{"", "create", "create", "", "create", "", "merge", "replace"})
			}
			d := map[string]string{}
			nd := 1 + r.Intn(3)
			if r.Intn(4) == 0 {
				nd = 0 // a generator entry without text sources (options only, or binary files only)
			}
			for j := 0; j < nd; j++ {
				d[pick(r, []string{"a", "b", "c"})] = pick(r, []string{"1", "2", "x", ""})
			}
			bin := map[string]string{}
			if r.Intn(3) == 0 {
				for j := 0; j < 1+r.Intn(2); j++ {
					k := pick(r, []string{"p", "q", "a"})
					if _, clash := d[k]; !clash {
						bin[k] = pick(r, []string{"\xff\xfe\x01", "\x80abc", "\xc3\x28"})
					}
				}
			}
			binW := map[string]string{}
			for k, v := range bin {
				binW[k] = base64.StdEncoding.EncodeToString([]byte(v))
			}
			nh := r.Intn(4) != 0
			ops = append(ops, op{b, d, bin, nh})
			wops = append(wops, map[string]interface{}{"behavior": b, "data": dictWire(d), "bin": dictWire(binW), "needsHash": nh})
		}
		args := map[string]interface{}{"ops": wops}
		return args, func() (interface{}, string) {
			rmf := resmap.NewFactory(rf())
			acc := resmap.New()
			anyBin := false
			for _, o := range ops {
				var lits, files []string
				keys := make([]string, 0)
				for k := range o.data {
					keys = append(keys, k)
				}
				sort.Strings(keys)
				for _, k := range keys {
					lits = append(lits, k+"="+o.data[k])
				}
				fs := filesys.MakeFsInMemory()
				bkeys := make([]string, 0)
				for k := range o.bin {
					bkeys = append(bkeys, k)
				}
				sort.Strings(bkeys)
				for _, k := range bkeys {
					fs.WriteFile("/"+k+".bin", []byte(o.bin[k]))
					files = append(files, k+"="+k+".bin")
					anyBin = true
				}
				a := types.ConfigMapArgs{GeneratorArgs: types.GeneratorArgs{Name: "cm", Behavior: o.b,
					KvPairSources: types.KvPairSources{LiteralSources: lits, FileSources: files},
					Options:       &types.GeneratorOptions{DisableNameSuffixHash: !o.nh}}}
				ldr := kv.NewLoader(pkgloader.NewFileLoaderAtRoot(fs), depProvider.GetFieldValidator())
				m, err := rmf.FromConfigMapArgs(ldr, a)
				if err != nil {
					return map[string]interface{}{"err": "gen"}, "err-gen"
				}
				if err := acc.AbsorbAll(m); err != nil {
					cls := "exists"
					if strings.Contains(err.Error(), "does not exist") {
						cls = "absent"
					}
					return map[string]interface{}{"err": cls}, "err-" + cls
				}
			}
			res := acc.Resources()[0]
			cl := "ok"
			if anyBin {
				cl = "ok-binary"
			}
			return map[string]interface{}{"ok": map[string]interface{}{"data": dictWire(res.GetDataMap()), "needsHash": res.NeedHashSuffix(), "bin": dictWire(res.GetBinaryDataMap())}}, cl
		}
	}
}

func kvLoader() ifc.KvLoader {
	return kv.NewLoader(pkgloader.NewFileLoaderAtRoot(filesys.MakeFsInMemory()), depProvider.GetFieldValidator())
}

// gen.sources: one generator's key/value sources of ALL kinds — env files (comments, blank lines, BOM, CRLF, lines
// without '='), literals (quoting), file sources (key=path and bare path) — through the real ConfigMap factory
// (kv.loader.Load + makeValidatedDataMap), with keys drawn from one small alphabet so that the same key often comes
// from two kinds of source.  Model: lean/Kust/Kv.lean.
func init() {
	components["gen.sources"] = func(r *rand.Rand, tier string) (map[string]interface{}, func() (interface{}, string)) {
		keys := []string{"LOG_LEVEL", "A", "b", "mode", "a.b", "x-y", "k1", "pw.txt"}
		odd := []string{"1x", "bad key", "", "é", "a/b"}
		key := func() string {
			if r.Intn(12) == 0 {
				return pickS(r, odd)
			}
			return pickS(r, keys)
		}
		val := func() string { return pickS(r, []string{"info", "debug", "", "x=y", "\"q\"", "'s'", " padded ", "1"}) }
		var envs []string
		for i := r.Intn(3); i > 0; i-- {
			var sb strings.Builder
			if r.Intn(6) == 0 {
				sb.WriteString("\ufeff")
			}
			for j := r.Intn(4); j > 0; j-- {
				switch r.Intn(7) {
				case 0:
					sb.WriteString("# comment " + key() + "=x")
				case 1:
					sb.WriteString("")
				case 2:
					sb.WriteString("  " + key() + "=" + val())
				case 3:
					sb.WriteString(key())
				default:
					sb.WriteString(key() + "=" + val())
				}
				sb.WriteString(pickS(r, []string{"\n", "\n", "\r\n"}))
			}
			if r.Intn(3) == 0 {
				sb.WriteString(key() + "=" + val()) // last line without a line break
			}
			envs = append(envs, sb.String())
		}
		var lits []string
		for i := r.Intn(3); i > 0; i-- {
			if r.Intn(12) == 0 {
				lits = append(lits, key())
			} else {
				lits = append(lits, key()+"="+val())
			}
		}
		fileContent := map[string]string{"pw.txt": "secret", "dir/mode": "file-mode", "A": "content-of-A"}
		var files []string
		for i := r.Intn(3); i > 0; i-- {
			switch r.Intn(6) {
			case 0:
				files = append(files, pickS(r, []string{"pw.txt", "dir/mode", "A", "missing.txt"}))
			case 1:
				files = append(files, pickS(r, []string{"=pw.txt", "k1=", "a=b=c"}))
			default:
				files = append(files, key()+"="+pickS(r, []string{"pw.txt", "dir/mode", "A", "missing.txt"}))
			}
		}
		v := depProvider.GetFieldValidator()
		envok, keyok := map[string]interface{}{}, map[string]interface{}{}
		for _, k := range append(append(append([]string{}, keys...), odd...), "# comment LOG_LEVEL", "mode", "pw.txt", "dir/mode") {
			envok[k] = v.IsEnvVarName(k) == nil
			keyok[k] = v.ErrIfInvalidKey(k) == nil
		}
		// every candidate key the sources can yield (text before the first '=' of a trimmed line / spec)
		cand := func(s string) {
			s = strings.TrimPrefix(s, "\ufeff")
			s = strings.TrimLeft(s, " \t")
			if i := strings.Index(s, "="); i >= 0 {
				s = s[:i]
			}
			envok[s] = v.IsEnvVarName(s) == nil
			keyok[s] = v.ErrIfInvalidKey(s) == nil
		}
		for _, e := range envs {
			for _, l := range strings.Split(strings.ReplaceAll(e, "\r\n", "\n"), "\n") {
				cand(l)
			}
		}
		for _, l := range append(append([]string{}, lits...), files...) {
			cand(l)
		}
		var wenvs, wlits, wfiles []interface{}
		for _, e := range envs {
			wenvs = append(wenvs, e)
		}
		for _, l := range lits {
			wlits = append(wlits, l)
		}
		for _, f := range files {
			wfiles = append(wfiles, f)
		}
		fc := map[string]interface{}{}
		for k, c := range fileContent {
			fc[k] = c
		}
		args := map[string]interface{}{"envs": wenvs, "literals": wlits, "files": wfiles, "content": fc, "envok": envok, "keyok": keyok}
		return args, func() (interface{}, string) {
			fs := filesys.MakeFsInMemory()
			for p, c := range fileContent {
				fs.WriteFile("/"+p, []byte(c))
			}
			var envPaths []string
			for i, e := range envs {
				p := fmt.Sprintf("env%d.env", i)
				fs.WriteFile("/"+p, []byte(e))
				envPaths = append(envPaths, p)
			}
			ldr := kv.NewLoader(pkgloader.NewFileLoaderAtRoot(fs), v)
			res, err := rf().MakeConfigMap(ldr, &types.ConfigMapArgs{GeneratorArgs: types.GeneratorArgs{Name: "g",
				KvPairSources: types.KvPairSources{EnvSources: envPaths, LiteralSources: lits, FileSources: files}}})
			if err != nil {
				m := err.Error()
				for _, c := range [][2]string{{"illegally repeats the key", "dupkey"}, {"invalid literal source", "literal"}, {"is not a valid key name", "badkey"},
					{"missing key name", "filesrc"}, {"missing file path", "filesrc"}, {"key name or file path contains", "filesrc"},
					{"a valid environment variable name", "envname"}, {"doesn't exist", "notfound"}, {"must resolve to a file", "notfound"}} {
					if strings.Contains(m, c[0]) {
						return map[string]interface{}{"err": c[1]}, "err-" + c[1]
					}
				}
				return map[string]interface{}{"err": "other:" + m}, "err-other"
			}
			return map[string]interface{}{"ok": dictWire(res.GetDataMap())}, "ok"
		}
	}
}
