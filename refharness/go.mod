module verifref

go 1.22.7

require (
	k8s.io/api v0.29.0
	k8s.io/apimachinery v0.29.0
)

require (
	github.com/davecgh/go-spew v1.1.1
	github.com/go-logr/logr v1.4.2
	github.com/gogo/protobuf v1.3.2
	github.com/golang/protobuf v1.5.4
	github.com/google/gnostic-models v0.6.9
	github.com/google/go-cmp v0.6.0
	github.com/google/gofuzz v1.2.0
	github.com/json-iterator/go v1.1.12
	github.com/modern-go/concurrent v0.0.0-20180306012644-bacd9c7ef1dd
	github.com/modern-go/reflect2 v1.0.2
	golang.org/x/net v0.34.0
	golang.org/x/text v0.21.0
	google.golang.org/protobuf v1.36.1
	gopkg.in/inf.v0 v0.9.1
	k8s.io/klog/v2 v2.130.1
	k8s.io/kube-openapi v0.0.0-20241212222426-2c72e554b1e7
	k8s.io/utils v0.0.0-20240711033017-18e509b52bc8
	sigs.k8s.io/json v0.0.0-20221116044647-bc3834ca7abd
	sigs.k8s.io/structured-merge-diff/v4 v4.4.2
	sigs.k8s.io/yaml v1.4.0
)

require (
	github.com/go-openapi/jsonpointer v0.21.0 // indirect
	github.com/go-openapi/jsonreference v0.20.2 // indirect
	github.com/go-openapi/swag v0.23.0 // indirect
	github.com/josharian/intern v1.0.0 // indirect
	github.com/mailru/easyjson v0.7.7 // indirect
	gopkg.in/yaml.v3 v3.0.1 // indirect
)
