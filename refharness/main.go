// vhref — reference strategic-merge implementation (k8s.io/apimachinery strategicpatch with k8s.io/api types).
// One JSON object per line in: {"kind":…,"apiVersion":…,"target":{…},"patch":{…}}; out: {"ok":{…}} | {"err":"…"} | {"skip":"…"}
package main

import (
	"bufio"
	"encoding/json"
	"fmt"
	"os"

	appsv1 "k8s.io/api/apps/v1"
	batchv1 "k8s.io/api/batch/v1"
	corev1 "k8s.io/api/core/v1"
	"k8s.io/apimachinery/pkg/util/strategicpatch"
)

func typeFor(kind, apiVersion string) interface{} {
	switch apiVersion + "/" + kind {
	case "apps/v1/Deployment":
		return appsv1.Deployment{}
	case "apps/v1/StatefulSet":
		return appsv1.StatefulSet{}
	case "apps/v1/DaemonSet":
		return appsv1.DaemonSet{}
	case "batch/v1/Job":
		return batchv1.Job{}
	case "v1/Pod":
		return corev1.Pod{}
	case "v1/Service":
		return corev1.Service{}
	case "v1/ConfigMap":
		return corev1.ConfigMap{}
	}
	return nil
}

func main() {
	in := bufio.NewReaderSize(os.Stdin, 1<<20)
	out := bufio.NewWriter(os.Stdout)
	defer out.Flush()
	dec := json.NewDecoder(in)
	for {
		var c struct {
			Kind       string          `json:"kind"`
			APIVersion string          `json:"apiVersion"`
			Target     json.RawMessage `json:"target"`
			Patch      json.RawMessage `json:"patch"`
		}
		if err := dec.Decode(&c); err != nil {
			return
		}
		res := map[string]interface{}{}
		t := typeFor(c.Kind, c.APIVersion)
		var merged []byte
		var err error
		if t == nil {
			// schema-less kinds: plain JSON merge semantics with atomic lists = strategic merge with no struct tags
			merged, err = strategicpatch.StrategicMergePatch(c.Target, c.Patch, struct{}{})
			if err != nil {
				// unknown fields of the empty struct are an error: fall back to "skip"
				res["skip"] = "no reference type for " + c.Kind
				b, _ := json.Marshal(res)
				fmt.Fprintln(out, string(b))
				continue
			}
		} else {
			merged, err = strategicpatch.StrategicMergePatch(c.Target, c.Patch, t)
		}
		if err != nil {
			res["err"] = err.Error()
		} else {
			var v interface{}
			json.Unmarshal(merged, &v)
			res["ok"] = v
		}
		b, _ := json.Marshal(res)
		fmt.Fprintln(out, string(b))
	}
}
