# Per-property configuration of bin/check and source of MANIFEST.json (bin/mkmanifest).
PROPS = {}

PROPS["C14"] = dict(
    title="Field-path operations on YAML nodes obey get/set laws",
    modules=["Kust.Props.C14", "Kust.Lemmas.Path"],
    theorems=[
        "Kust.C14.setfield_get", "Kust.C14.setfield_frame", "Kust.C14.setfield_idem",
        "Kust.C14.clear_absent_noop", "Kust.C14.clear_frame", "Kust.Fns.pathGet_nocreate_doc",
    ],
    components=["fns.lookup", "fns.setfield", "fns.clear", "fns.setelem"],
    oracle=False,
    n_corr={"quick": 3000, "thorough": 40000},
    technique="Lean 4 proof of get/set laws on a transliterated model of kyaml fns.go + differential correspondence (Go vs compiled Lean driver)",
    level_text="Lean theorems (put-get, frame, put-put, clear/lookup no-op) about the model of FieldSetter/FieldMatcher/FieldClearer/"
               "ElementSetter/PathGetter, for all documents, names, values and paths; the model is tied to kyaml/yaml/fns.go by "
               "running both on the same generated (doc, path, value) cases on every check.",
    level_note="Trusted: Lean kernel; correspondence harness and its generators (bounded depth, small alphabets); "
               "yaml.IsValueNonString is a parameter of the theorems (its graph is sampled from the real library per case).",
    assumptions=["IsValueNonString (YAML 1.1 reader) is an uninterpreted parameter `ns`",
                 "null receivers of creating element matchers are outside the tree model (class 'unmodelled', counted)"],
    design_ref="DESIGN.md §5 C14",
)
