# Per-property configuration of bin/check and source of MANIFEST.json (bin/mkmanifest).
PROPS = {}

PROPS["C14"] = dict(
    title="Field-path operations on YAML nodes obey get/set laws",
    modules=["Kust.Props.C14", "Kust.Props.C14b", "Kust.Props.C14c", "Kust.Props.C14d", "Kust.Lemmas.Path", "Kust.Props.C14e"],
    theorems=[
        "Kust.C14.setfield_get", "Kust.C14.setfield_frame", "Kust.C14.setfield_idem",
        "Kust.C14.clear_absent_noop", "Kust.C14.clear_frame", "Kust.C14.clear_get", "Kust.C14.clear_length", "Kust.C14.clear_clear", "Kust.Fns.pathGet_nocreate_doc",
        "Kust.C14.create_then_lookup", "Kust.C14.match_nocreate_doc", "Kust.C14.match_denotes", "Kust.C14.denote_resolves",
        "Kust.C14.match_positions_resolve", "Kust.C14.match_positions_resolve_create", "Kust.C14.split_plain", "Kust.C14.merge_plain", "Kust.C14.filter_denotes", "Kust.C14.splitScan_joinEsc", "Kust.C14.scan_joinEsc", "Kust.C14.split_is_scan", "Kust.C14.filter_create_get", "Kust.C14.filter_create_mid", "Kust.C14.plainSeg_examples", "Kust.C14.split_joinEsc", "Kust.C14.smarter_plain",
    ],
    components=["fns.lookup", "fns.lookup2", "fns.setfield", "fns.clear", "fns.setelem", "fieldspec.apply", "match.path", "path.split"],
    oracle=False,
    n_corr={"quick": 3000, "thorough": 40000},
    technique="Lean 4 proof of get/set laws on a transliterated model of kyaml fns.go + differential correspondence (Go vs compiled Lean driver)",
    level_text="Lean theorems (put-get, frame, put-put, clear/lookup no-op) about the model of FieldSetter/FieldMatcher/FieldClearer/"
               "ElementSetter/PathGetter, for all documents, names, values and paths; the model is tied to kyaml/yaml/fns.go by "
               "running both on the same generated (doc, path, value) cases on every check.",
    level_note="Trusted: Lean kernel; correspondence harness and its generators (bounded depth, small alphabets); "
               "yaml.IsValueNonString is a parameter of the theorems (its graph is sampled from the real library per case).",
    assumptions=["IsValueNonString (YAML 1.1 reader) is an uninterpreted parameter `ns`",
                 "null receivers of creating element matchers are outside the tree model (class 'unmodelled', counted)",
                 "PathMatcher: the regular-expression test on the serialised scalar is a parameter `hit` of the theorems; the executable model "
                 "instantiates it for literal patterns (substring containment), other patterns are counted 'unmodelled'; an empty path part with "
                 "creation (walk continues in a detached node) is outside the tree model"],
    design_ref="DESIGN.md §5 C14",
)

COMMON_NOTE = ("Trusted: Lean 4.33 kernel (axioms audited per theorem: subset of propext/Classical.choice/Quot.sound); the T-gen translator "
               "(extract/main.go) for regenerated tables; the correspondence harness and its generators; the whole-build oracle is a search, "
               "never a substitute for a theorem. ")

PROPS["C03"] = dict(
    title="Name references follow every rename",
    modules=["Kust.Props.C03", "Kust.Props.C03b", "Kust.Props.C03c"],
    theorems=["Kust.C03.subset_mem", "Kust.C03.subject_account_candidate", "Kust.C03.same_namespace_candidate", "Kust.C03.other_namespace_excluded",
              "Kust.C03.subset_sublist", "Kust.C03.cluster_referrer_sees_all",
              "Kust.C03.rename_records", "Kust.C03.storePrev_origName", "Kust.C03.rules_write_no_identity",
              "Kust.C03.essential_rules_present", "Kust.Res.layers_no_panic", "Kust.Res.layers_good",
              "Kust.C03.unique_candidate_followed", "Kust.C03.no_candidate_untouched", "Kust.C03.picked_is_a_candidate",
              "Kust.C03.picked_bore_the_name"],
    components=["res.layers", "nameref.select", "resmap.subset"],
    oracle=True,
    n_corr={"quick": 3000, "thorough": 30000}, n_oracle={"quick": 600, "thorough": 6000},
    technique="Lean 4 proof (previous-id bookkeeping invariant over any layer chain; the referent selection selectReferral: a unique bearer of the written name is followed whatever the prefix/suffix contexts, whatever is picked bore the name and has the rule's kind; decide over the regenerated rule table) + Go/Lean correspondence of the renaming plugins and of nameref.Filter's selection on candidates with arbitrary rename histories + reference-edge oracle on whole builds (chains and sibling sub-trees)",
    level_text="Theorems: through any number of namespace/prefix/suffix layers the loaded name stays the first recorded name (rename_records), "
               "the bookkeeping never panics on named resources, no rule of the regenerated table writes an identity field and the rules the property "
               "names are present; selectReferral (scalar name fields) is modelled and proved: the only resource that ever bore the written name is the one followed. "
               "Which resources are candidates at which layer (accumulation order, name+namespace map fields) is checked on real whole builds only.",
    level_note=COMMON_NOTE + "Not modelled (oracle only): setMapping (name+namespace fields), hash renaming, layered accumulation.",
    assumptions=["IsClusterScoped is a parameter cs", "the accumulation order and map-valued reference fields are covered by the whole-build edge oracle only"],
    design_ref="DESIGN.md §5 C03",
)
PROPS["C07"] = dict(
    title="Output is well-formed, identity-unique, free of bookkeeping, and a fixpoint",
    modules=["Kust.Props.C07", "Kust.Props.C13"],
    theorems=["Kust.C13.emit_read_back", "Kust.C07.out_ids_unique", "Kust.C07.append_refuses_duplicate", "Kust.C07.out_has_kind_name", "Kust.C07.renaming_never_panics",
              "Kust.C07.strip_removes", "Kust.C07.strip_keeps", "Kust.C07.strip_idem", "Kust.C07.strip_sublist", "Kust.C07.strip_clean", "Kust.C07.strip_id_of_clean", "Kust.C07.annotation_keys_covered", "Kust.C07.core_keys_stripped"],
    components=["res.append", "res.layers", "kio.emit"],
    oracle=True,
    n_corr={"quick": 3000, "thorough": 30000}, n_oracle={"quick": 300, "thorough": 4000},
    technique="Lean 4 proof (Append uniqueness invariant, named-resource invariant, stripped-key coverage by decide over regenerated tables) + correspondence + fixpoint/rebuild oracle on whole builds",
    level_text="Theorems: any map built by successful Appends has pairwise non-Equals ids; named resources stay named through any layer chain; every "
               "annotation-key constant the translator finds in the build code is stripped or reviewed. The byte-level fixpoint and re-parse claims rest "
               "on go-yaml and are decided by the oracle (second build over the emitted text).",
    level_note=COMMON_NOTE + "go-yaml emit/parse stability is not modelled (oracle only).",
    assumptions=["emit/parse are third-party (oracle only)", "patches that rewrite identity fields are outside the property (finding C12-K1)"],
    design_ref="DESIGN.md §5 C07",
)
PROPS["C09"] = dict(
    title="The namespace directive moves every namespaced resource and nothing else",
    modules=["Kust.Props.C09", "Kust.Props.C09b", "Kust.Props.C02c"],
    theorems=["Kust.C02.namespace_kept", "Kust.C09.ns_total", "Kust.C09.ns_empty_noop", "Kust.C09.ns_outermost_wins", "Kust.C09.ns_collision_is_error",
              "Kust.C09.scope_table_sane", "Kust.C09.scope_table_expected",
              "Kust.C09.subject_named_default_moves", "Kust.C09.subject_not_default_untouched", "Kust.C09.service_account_subject_moves",
              "Kust.C09.other_kind_subject_untouched", "Kust.C09.no_subjects_mode_noop", "Kust.C09.roleBindingHack_frame",
              "Kust.C09.cluster_scoped_meta_untouched", "Kust.C09.cluster_scoped_untouched", "Kust.C09.meta_namespace_moves",
              "Kust.C09.run_is_meta_pass", "Kust.C09.dropMeta_no_meta_namespace", "Kust.C09.unset_only_keeps",
              "Kust.C09.setNamespaceField_moves"],
    components=["res.layers", "res.append", "ns.filter", "res.smpatch"],
    oracle=True,
    n_corr={"quick": 3000, "thorough": 30000}, n_oracle={"quick": 500, "thorough": 5000},
    technique="Lean 4 proof (namespace step, outermost-wins induction over layers, collision re-check invariant, decide over regenerated scope table) + plugin correspondence + per-resource oracle on whole builds",
    level_text="Theorems for every layer chain and resource: a not-cluster-scoped resource ends in the outermost directive's namespace, a cluster-scoped one is "
               "untouched, a successful transformer run leaves pairwise distinct ids (collisions are errors). On resource trees (model NsFilter of "
               "api/filters/namespace, tied by ns.filter): metadata.namespace is created/overwritten for namespaced resources and nothing else changes, "
               "cluster-scoped ones are returned as they came, and the role-binding subject pass moves exactly the designated subjects of the mode "
               "(named default / every ServiceAccount / none), element by element, touching no other field.",
    level_note=COMMON_NOTE + "nameref subject fixing (which account a subject designates) is C03's model plus the oracle.",
    assumptions=["IsCertainlyClusterScoped is a parameter cs (regenerated table checked by decide)"],
    design_ref="DESIGN.md §5 C09",
)
PROPS["C11"] = dict(
    title="Kustomizations compose transparently (wrapping, relocation, reordering)",
    modules=["Kust.Props.C11"],
    theorems=["Kust.C11.legacy_order_input_independent", "Kust.C11.legacy_sort_idempotent", "Kust.C11.order_lists_wellformed",
              "Kust.C11.affixName_eq", "Kust.C11.affix_accumulation", "Kust.C11.skip_list_expected", "Kust.sort_perm_invariant", "Kust.mergeSort_spec",
              "Kust.C11.empty_layer_noop", "Kust.C11.wrap_transparent", "Kust.C11.inner_wrap_transparent", "Kust.C11.layers_append"],
    components=["res.legacysort", "res.layers"],
    oracle=True,
    n_corr={"quick": 2000, "thorough": 20000}, n_oracle={"quick": 150, "thorough": 2000},
    technique="Lean 4 proof (any sorting function is permutation-invariant under the transliterated legacy comparator; affix accumulation by induction over layers) + comparator correspondence through real legacy-sorted builds + wrap/move/permute oracle",
    level_text="Theorems: for every sorting function meeting the sort specification and every permutation of an id list with distinct sort keys the legacy "
               "order is the same list; names accumulate as P_outer..P_inner+name+S_inner..S_outer for any number of layers; a layer without directives is the identity on a resource (bookkeeping included), "
               "so wrapping in any number of directive-free overlays, outside or inside, gives every resource what the wrapped tree gives it. Relocation and the "
               "whole-build wrap/move equalities are decided by the oracle (loader and accumulation are not modelled).",
    level_note=COMMON_NOTE + "Go's sort is specified (SortSpec), not modelled; antisymmetry of the comparator on the ids is a hypothesis (checked by decide on samples).",
    assumptions=["distinct ids have distinct legacy sort keys (AntisymmOn)", "wrap/move transparency rests on the oracle"],
    design_ref="DESIGN.md §5 C11",
)
PROPS["C12"] = dict(
    facts=True,
    title="Malformed input yields an error, never a panic, exit or hang",
    modules=["Kust.Props.C12", "Kust.Props.C12b", "Kust.Lemmas.Res"],
    theorems=["Kust.C12.crd_expansion_terminates", "Kust.C12.expand_succ", "Kust.C12.Witness.old_expansion_unbounded", "Kust.C12.rem_cons_lt",
              "Kust.C12.pathGet_no_panic", "Kust.C12.lookup_no_panic", "Kust.C12.fieldSetter_no_panic", "Kust.C12.fieldClearer_no_panic",
              "Kust.C12.elementIndexer_ne_panic", "Kust.C12.Witness.elementIndexerOld_panics", "Kust.Res.prevIds_no_panic",
              "Kust.Res.layers_no_panic", "Kust.Res.Witness.nameless_prevIds_panics", "Kust.C12.panic_sites_covered",
              "Kust.C12.panic_sites_all_reviewed"],
    components=["fns.lookup", "fns.setelem", "res.layers", "crd.config", "path.split"],
    oracle=True,
    n_corr={"quick": 2000, "thorough": 20000}, n_oracle={"quick": 1500, "thorough": 20000},
    technique="Lean 4 proof (explicit panic outcomes in the models; no_panic theorems; totality = termination) + correspondence incl. malformed stream + structural/byte mutation search in worker processes (recover, timeout, exit detection)",
    level_text="PARTIAL by nature: theorems show the modelled partial functions (PathGetter, field/element setters, previous-id bookkeeping) never reach a panic "
               "outcome for any input, with kernel-checked witnesses for the repaired and the recorded defects; everything else (go-yaml, json-patch, the rest "
               "of the build) is covered only by the mutation search, and the time bound is measured, not proved.",
    level_note=COMMON_NOTE + "Third-party parsers and the Go runtime are outside the model; time bound measured per case.",
    assumptions=["panic-freedom of unmodelled code is searched, not proved"],
    design_ref="DESIGN.md §5 C12",
)

PROPS["C20"] = dict(
    title="Canonical formatting is idempotent and preserves meaning",
    modules=["Kust.Props.C20", "Kust.Props.C20b"],
    theorems=["Kust.C20.int_or_string_untouched", "Kust.C20.string_schema_reads_as_string", "Kust.C20.string_kept_unless_typed",
              "Kust.C20.plain_text_untouched", "Kust.C20.unknown_type_untouched", "Kust.C20.schema_value_kept", "Kust.C20.schema_idempotent",
              "Kust.C20.fmt_idempotent", "Kust.C20.fmt_map_perm", "Kust.C20.fmt_seq_perm", "Kust.C20.fmt_seq_order_kept",
              "Kust.C20.fmtN_valueText", "Kust.C20.seqKey_fmtN", "Kust.C20.lastFieldText_perm", "Kust.Fmt.leField_trans", "Kust.Fmt.leField_total",
              "Kust.C20.field_order_expected", "Kust.C20.whitelist_expected"],
    components=["fmt.node", "fmt.nonstring"],
    oracle=True,
    n_corr={"quick": 3000, "thorough": 40000}, n_oracle={"quick": 400, "thorough": 5000},
    technique="Lean 4 proof (idempotence and permutation-only for ANY sorting function meeting the sort specification, by induction on depth) + Go/Lean correspondence of FormatFilter + byte-level idempotence/value/comment oracle",
    level_text="Theorems about the transliterated formatter for every sorter, depth, path and table: fmt(fmt x)=fmt x on documents with distinct keys; "
               "maps and whitelisted lists are only permuted, other lists keep their order; scalar text untouched. Comments ride on nodes (not in the "
               "tree type) and byte-level claims rest on go-yaml: both decided by the oracle. Schema clause (UseSchema=true): theorems about the model "
               "of FormatNonStringStyle (Kust.FmtSchema, tied by fmt.nonstring) — int-or-string fields untouched, strings stay strings, text never "
               "changes, only boolean/integer/number schemas remove quotes, idempotent — with IsValueNonString a parameter; the schema LOOKUP per field "
               "(kube-openapi) is third-party and decided by the oracle's table of built-in fields.",
    level_note=COMMON_NOTE + "Go sort.Sort is specified by Sorter (perm, sorted, fixes sorted input), sampled by the correspondence; go-yaml emit/parse not modelled.",
    assumptions=["Sorter.fix: sorting an ordered list returns it unchanged (pdqsort property, sampled)", "documents have distinct mapping keys (NoDupN)",
                 "UseSchema=false"],
    design_ref="DESIGN.md §5 C20",
)

PROPS["C15"] = dict(
    title="Three-way merge honours the basic merge laws",
    modules=["Kust.Props.C15"],
    theorems=["Kust.C15.scalar_local", "Kust.C15.scalar_upstream", "Kust.C15.scalar_same", "Kust.C15.scalar_removed_upstream",
              "Kust.C15.scalar_added_upstream", "Kust.C15.nalist_local", "Kust.C15.nalist_upstream",
              "Kust.C15.map_missing_dest_creates_empty", "Kust.C15.alist_missing_dest_creates_empty",
              "Kust.C15.Law1_full_false", "Kust.C15.Law2_full_false", "Kust.C15.Witness.scalar_type_not_updated", "Kust.C15.ser0_refl"],
    components=["walk.merge3"],
    oracle=True,
    n_corr={"quick": 3000, "thorough": 40000}, n_oracle={"quick": 500, "thorough": 6000},
    technique="Lean 4 proof on a transliterated walker+merge3 visitor (leaf-decision laws for all inputs; kernel-evaluated refutations of the full laws) + Go/Lean correspondence of merge3 + law oracle on the real code with finding recognisers",
    level_text="The full laws are FALSE of the code: Law1_full/Law2_full are refuted in Lean by kernel-evaluated witnesses that replay on the implementation (known "
               "findings C15-K1..K4). Proved (partial): the scalar and atomic-list decisions satisfy all three laws and the one-sided clauses on null-free inputs "
               "for every `ser` that is reflexive; the two container decisions that break the laws are characterised exactly. The walker recursion itself is tied "
               "by correspondence (0 disagreements on 12k generated triples), not proved law-by-law.",
    level_note=COMMON_NOTE + "RNode.String() (serialised-text comparison) is a parameter `ser` assumed reflexive; the walker's composition of leaf decisions is validated by correspondence and the law oracle, not proved.",
    assumptions=["ser reflexive", "documents without explicit nulls (a null means 'clear' in merge3)"],
    design_ref="DESIGN.md §5 C15",
)

PROPS["C04"] = dict(
    title="Strategic-merge patches follow the Kubernetes merge rules",
    modules=["Kust.Props.C04"],
    theorems=["Kust.C04.directive_absent", "Kust.C04.directive_map", "Kust.C04.directive_unknown", "Kust.C04.elision_keeps_other_fields",
              "Kust.C04.scalar_patch_wins", "Kust.C04.scalar_unmentioned_kept", "Kust.C04.atomic_list_replaced",
              "Kust.C04.atomic_list_unmentioned_kept", "Kust.C04.map_null_clears", "Kust.C04.keyed_list_null_clears", "Kust.C04.map_added",
              "Kust.C04.Witness.patched_scalar_keeps_quoting"],
    components=["walk.merge2", "fns.setelem", "fns.setfield"],
    oracle=True,
    n_corr={"quick": 3000, "thorough": 40000}, n_oracle={"quick": 1000, "thorough": 15000},
    technique="Lean 4 proof of each merge decision and of directive detection/elision on a transliterated walker+merge2 model + Go/Lean correspondence of merge2 (aliasing quirks included) + differential oracle against k8s.io/apimachinery strategicpatch (reference equality up to keyed-list order, idempotence, frame)",
    level_text="Theorems (all inputs): the decision taken at every node kind is the rule the property states (patch scalar wins, atomic lists replaced, null/`$patch: delete` "
               "remove, `$patch: replace` replaces, absent content added, unknown directive is an error) and elision removes only the directive. The walker's "
               "composition over whole documents is tied by correspondence (0 disagreements) and compared on the real code with the Kubernetes reference "
               "implementation; idempotence and frame are checked by that oracle and by kernel-evaluated instances, not proved in general.",
    level_note=COMMON_NOTE + "OpenAPI schema is a parameter (merge keys of generated kinds are read from the real openapi package per case); multi-key merge lists (ports) are outside the model and covered by the oracle only.",
    assumptions=["schema facts supplied per case by the real openapi package", "reference = k8s.io/apimachinery v0.29.0 strategicpatch with k8s.io/api types"],
    design_ref="DESIGN.md §5 C04",
)

PROPS["C06"] = dict(
    title="Generators layer like dictionaries and name their output by its final content",
    modules=["Kust.Props.C06", "Kust.Props.C06b"],
    theorems=["Kust.C06.validated_is_dictionary", "Kust.C06.key_repeated_across_sources_rejected", "Kust.C06.validate_spec", "Kust.C06.load_order",
              "Kust.C06.over_get", "Kust.C06.over_assoc", "Kust.C06.create_on_absent", "Kust.C06.merge_on_absent_fails",
              "Kust.C06.replace_on_absent_fails", "Kust.C06.create_on_present_fails", "Kust.C06.merge_on_present", "Kust.C06.replace_on_present", "Kust.C06.merge_on_present_bin", "Kust.C06.replace_on_present_bin",
              "Kust.C06.layer_fold", "Kust.C06.suffix_ignores_envelope", "Kust.C06.equal_content_equal_suffix",
              "Kust.C06.subst_injective_on_hex", "Kust.C06.subst_expected", "Kust.C06.suffix_length",
              "Kust.C06.over_idem_get", "Kust.C06.over_nil_right", "Kust.C06.foldSpec_snoc_merge", "Kust.C06.foldSpec_snoc_replace",
              "Kust.C06.foldSpec_frame"],
    components=["gen.hash", "gen.literals", "gen.absorb", "gen.sources"],
    oracle=True,
    n_corr={"quick": 2000, "thorough": 30000}, n_oracle={"quick": 500, "thorough": 6000},
    technique="Lean 4 proof (dictionary algebra of create/merge/replace over any chain; suffix depends on content only; regenerated digit substitution injective on hex) + Go/Lean correspondence of literal parsing, AbsorbAll and hasher.Hash (Lean SHA-256 + JSON escaping in the driver) + independent-hash oracle on whole builds",
    level_text="Theorems: merge is right-biased dictionary override for every key, layering folds associatively, impossible behaviours are errors, for any chain of "
               "merge/replace layers the final data is the fold; the suffix is a function of (kind, data, type) for ANY digest function, ten characters long, "
               "with an injective substitution (decide over the regenerated table). Collision resistance of SHA-256 is not claimed. Whole-build naming "
               "(affixes + suffix, references following it) is decided by the oracle with an independently written hash.",
    level_note=COMMON_NOTE + "SHA-256 and Go JSON escaping are parameters of the theorems; the driver's own implementations are validated against hasher.Hash on every case.",
    assumptions=["env / literal / file sources are modelled (Kust.Kv, gen.sources); binaryData vs data placement of non-UTF-8 content is covered by the oracle only", "the name slot of the hash input is always empty (observed and modelled)"],
    design_ref="DESIGN.md §5 C06",
)

PROPS["C08"] = dict(
    title="Labels reach metadata, selectors and templates consistently",
    modules=["Kust.Props.C08", "Kust.Props.C08b", "Kust.Labels"],
    theorems=["Kust.C08.own_fields_stay_own", "Kust.C08.plain_entry_specs", "Kust.C08.meta_spec_frame", "Kust.C08.own_fields_first", "Kust.C08.entries_keep_locations", "Kust.C08.Witness.own_metadata_spec_shadows",
              "Kust.C08.no_selectors_without_flag", "Kust.C08.tables_pair_up", "Kust.C08.metadata_labels_everywhere",
              "Kust.C08.selecting_kinds_present", "Kust.C08.selection_preserved", "Kust.C08.selection_preserved_layers",
              "Kust.C08.labels_present", "Kust.C08.labels_frame"],
    components=["labels.build", "labels.entries"],
    oracle=True,
    n_corr={"quick": 2500, "thorough": 30000}, n_oracle={"quick": 400, "thorough": 5000},
    technique="Lean 4 proof (decide +kernel over the regenerated label field-spec tables; selection preserved under equal label directives for any number of layers) + Go/Lean correspondence of label application through real builds for 11 kinds + who-selects-whom oracle",
    level_text="Theorems: in the regenerated tables every workload kind's selector location is paired with its pod-template location (created if absent); a labels entry "
               "without includeSelectors has no selector path; adding one label set to a selector and to the labels it selected preserves selection, for any chain "
               "of layers; added labels are present, others untouched. The model of 'which locations a labels entry reaches' is tied to real builds for every kind. Entries with field specs of "
               "their own (`fields`): the specs an entry is applied with are its own followed by the tables its flags ask for (MergeOne / MergeAll as the "
               "code has them, asymmetric comparison included); after ANY entry a plain entry changes metadata/labels and nothing else "
               "(own_fields_stay_own); tied to whole builds by labels.entries. Finding C08-K1 is a kernel-checked witness.",
    level_note=COMMON_NOTE + "fieldspec traversal below the label locations is C14's filter_denotes; user `configurations:` files are oracle-only.",
    assumptions=["default transformer configuration (no custom `configurations:`)"],
    design_ref="DESIGN.md §5 C08",
)

PROPS["C10"] = dict(
    title="Directives change exactly what they select",
    modules=["Kust.Props.C10", "Kust.Props.C10b", "Kust.Props.C10c", "Kust.Props.C10d"],
    theorems=["Kust.C10.select_designates", "Kust.C10.select_mem", "Kust.C10.select_sublist", "Kust.C10.mixed_original_and_current", "Kust.C10.name_mismatch_excluded", "Kust.C10.kind_mismatch_excluded", "Kust.C10.empty_selector_selects_all", "Kust.C10.bad_pattern_is_error", "Kust.C10.unparsable_selector_error_iff_reached",
              "Kust.C10.image_match_exact", "Kust.C10.rest_starts_tag_or_digest", "Kust.C10.match_has_prefix", "Kust.C10.unmatched_untouched", "Kust.C10.update_tag_and_digest", "Kust.C10.update_tag_only", "Kust.C10.update_digest_only", "Kust.C10.update_name_only",
              "Kust.C10.stripPrefix_iff", "Kust.C10.Witness.old_regex_name_matched_other_image",
              "Kust.C10.unselected_untouched", "Kust.C10.unnamed_field_untouched", "Kust.C10.target_frame", "Kust.C10.target_writes",
              "Kust.C10.literal_copied_verbatim", "Kust.C10.source_unique_and_current", "Kust.C10.last_sees_predecessors",
              "Kust.C10.target_pieces_exact", "Kust.C10.source_piece", "Kust.C10.setPieces_replace",
              "Kust.C10.modifyAt_same", "Kust.C10.modifyAt_frame", "Kust.C10.writeAll_frame", "Kust.C10.copyOne_frame",
              "Kust.C10.copyOne_single_scalar", "Kust.C10.copyOne_every_scalar", "Kust.C10.denote_pairwise", "Kust.C10.writeAll_each", "Kust.C10.setFieldValue_scalar", "Kust.C10.setFieldValue_nonscalar"],
    components=["image.update", "image.split", "repl.apply", "repl.tree", "match.path", "resmap.select"],
    oracle=True,
    n_corr={"quick": 4000, "thorough": 40000}, n_oracle={"quick": 1200, "thorough": 15000},
    technique="Lean 4 proof (image reference matching is literal-prefix + tag/digest grammar: exact characterisation, never a longer or shorter name; replacement filter on scalar fields: frame, verbatim copy, unique current source, strict sequencing, delimiter/index piece laws) + Go/Lean correspondence of the imagetag filter, Split and the replacement filter (lists of chained replacements) + near-miss selection oracle for patch targets, images, replicas and replacements on whole builds",
    level_text="Theorems (all strings): an images entry matches a reference iff it is the entry's name followed by an optional :tag and @sha256:digest; the character after "
               "the name is ':' or '@' (never a longer name), the name is a literal prefix (never shorter), unmatched images are untouched. Replacement filter "
               "(model Kust.Repl of replacement.go on name/label/data scalars, tied by repl.apply): resources no target selects and fields no target names are "
               "untouched across a whole list; selected fields receive the value verbatim; a field source is unique and read from the CURRENT state, each "
               "replacement sees its predecessors' writes; delimiter/index replace exactly the addressed piece. Selectors (model Kust.Select of "
               "resWrangler.Select + SelectorRegex, tied by resmap.select): a selector designates exactly the resources that pass every sieve, in map order; name and "
               "namespace are each matched against the original OR the current value, independently. Go's regexp itself, replicas and whole-build composition are "
               "decided by the oracle with an independent matcher over near-miss families; the unanchored [k=v] selector of replacement targets is the recorded finding C10-K1.",
    level_note=COMMON_NOTE + "Go regexp (user-supplied selector patterns) is a parameter `hit` of the selector model: that patterns are anchored is checked by the correspondence (Go's own regexp on the anchored pattern) and the oracle.",
    assumptions=["fixed-shape image regexp hand-modelled as a string function (validated by correspondence)",
                 "replacement model covers scalar fields metadata.name / metadata.labels.k / data.k, kind+name+label selectors and reject lists; "
                 "list-element paths go through Kust.Match, selectors with group/version/namespace/annotation requirements through Kust.Select; the three models are not composed",
                 "target_pieces_exact is proved for one-character delimiters (the model and the correspondence run any delimiter)"],
    design_ref="DESIGN.md §5 C10",
)

PROPS["C01"] = dict(
    title="A build is a deterministic, history-independent function of its inputs",
    facts=True,
    modules=["Kust.Props.C01", "Kust.Props.C16"],
    theorems=["Kust.C16.globals_reviewed", "Kust.C16.globals_byref_reviewed", "Kust.C01.C01_history", "Kust.C01.observeAll_default", "Kust.C01.history_reach", "Kust.C01.set_nondefault_fresh",
              "Kust.C01.Witness.old_custom_schema_leaks", "Kust.C01.sortStrs_perm", "Kust.C01.insertStr_comm",
              "Kust.C01.C01_map_sites_covered", "Kust.C01.map_sites_all_reviewed"],
    components=["openapi.seq"],
    oracle=True,
    n_corr={"quick": 400, "thorough": 5000}, n_oracle={"quick": 120, "thorough": 1500},
    technique="Lean 4 proof (history independence of the OpenAPI schema state machine for every history; permutation invariance of the sorted-key iteration; decide over the SSA-regenerated list of map-range sites) + Go/Lean correspondence of the schema state on op sequences + repetition/history/fresh-process oracle on whole builds",
    level_text="Theorem C01_history: for ANY sequence of earlier builds (any selections incl. custom schemas and unknown versions, any schema operations) a build observes "
               "exactly what it observes in a fresh process — for the repaired SetSchema; the old code is refuted by a kernel-evaluated witness. Sorted-key iteration is "
               "permutation-invariant; the regenerated list of range-over-map sites in the build closure equals the reviewed list, and so do the lists of package-level "
               "variables written, or handed by reference to a call, outside init (the state space of the model is all the process-wide state there is). PARTIAL: process-level repetition "
               "and Go's map randomisation are covered by these theorems plus the reviewed site list and a bounded repetition search, not by a semantics of the Go runtime.",
    level_note=COMMON_NOTE + "The schema is abstracted to its source (built-in / custom n); RTA over-approximates interface calls; the per-site order-independence arguments are review tags, only the sorted-key pattern is proved.",
    assumptions=["exactly one built-in OpenAPI version (as in the tree)", "Go map iteration is some permutation"],
    design_ref="DESIGN.md §5 C01",
)
PROPS["C16"] = dict(
    title="Independent builds may run concurrently without interfering",
    facts=True, race=True,
    modules=["Kust.Props.C16"],
    theorems=["Kust.Sync.lockset_drf", "Kust.Sync.step_inv", "Kust.C16.globals_reviewed", "Kust.C16.globals_byref_reviewed", "Kust.C16.access_table_disciplined",
              "Kust.C16.schema_accesses_present", "Kust.C16.concurrent_builds_race_free", "Kust.C16.default_view_confluent"],
    components=["openapi.seq"],
    oracle=True,
    n_corr={"quick": 300, "thorough": 3000}, n_oracle={"quick": 6, "thorough": 60},
    technique="Lean 4 proof (lockset discipline implies no simultaneous conflicting accesses in any interleaving; decide over the SSA-regenerated access table of mutable package-level state) + -race search with 2-16 concurrent builds and concurrent-vs-sequential comparison",
    level_text="PARTIAL by nature. Proved: in the operational lock model, any number of threads that access shared locations only while holding the location's lock never reach "
               "a state with two simultaneous conflicting accesses; the regenerated access table shows every access to package-level state written outside init is made "
               "under a lock (own or all callers'), which is that theorem's hypothesis for the current source; default-schema builds observe alike from any reachable "
               "default state. Assumed: the Go memory model and sync package behave as modelled; the extractor's lock propagation is syntactic. The race detector run "
               "on concurrently started builds is the search.",
    level_note=COMMON_NOTE + "Pointer escapes of shared state (e.g. &globalSchema.schema handed out) are not tracked by the extractor; goroutine-local state of a Run is established by the race search, not proved.",
    assumptions=["Go memory model + sync as in Kust.Sync", "builds use the built-in schema"],
    design_ref="DESIGN.md §5 C16",
)

PROPS["C02"] = dict(
    title="Untargeted content passes through a build unchanged (frame / type fidelity)",
    modules=["Kust.Props.C02", "Kust.Props.C02b", "Kust.Props.C14d", "Kust.Props.C02c"],
    theorems=["Kust.C02.no_options_identity_kept", "Kust.C02.options_are_independent", "Kust.C02.namespace_kept", "Kust.C02.previous_id_recorded", "Kust.C02.smpatch_keeps_alignment", "Kust.C02.Witness.restored_numeric_name_unquoted",
              "Kust.C02.text_without_dollar_untouched", "Kust.C02.expand_no_dollar", "Kust.C14.filter_denotes",
              "Kust.C02.filter_id", "Kust.C02.gvk_mismatch_untouched", "Kust.C02.setter_keeps_string", "Kust.C02.setter_leaves_safe_plain",
              "Kust.C02.set_entry_new", "Kust.C02.footprints", "Kust.C02.tables_paths_wellformed", "Kust.C02.pathGet_plain",
              "Kust.Fns.pathGet_nocreate_doc"],
    components=["refvar.expand", "fieldspec.apply", "fns.setfield", "labels.build", "res.smpatch"],
    oracle=True,
    n_corr={"quick": 3000, "thorough": 40000}, n_oracle={"quick": 400, "thorough": 6000},
    technique="Lean 4 proof (the field-spec traversal changes nothing except through its setter; setters quote YAML-1.1-ambiguous strings; decide +kernel over the regenerated transformer tables: documented footprints) + Go/Lean correspondence of fieldspec.Filter and FieldSetter + tracer-based frame/type oracle on whole builds with an adversarial scalar dictionary",
    level_text="Theorems: for every document, plain path and fuel the non-creating filter with the identity setter returns its input (all changes are the setter's, at the denoted "
               "nodes); a GVK mismatch is a no-op; a string value the YAML 1.1 readers would re-type is stored double-quoted for every value and every YAML-1.1 test; the "
               "regenerated tables of the prefix/suffix/replicas/images/annotations/namespace transformers mention only their documented locations and consist of plain "
               "segments. The composition over whole builds (exactly-once, frame at every JSON path, typed equality) is decided by the oracle on real builds.",
    level_note=COMMON_NOTE + "go-yaml emission and the YAML 1.1 reader are parameters (IsValueNonString graph supplied per case); whole-build accumulation is not modelled.",
    assumptions=["IsValueNonString is an uninterpreted parameter", "paths with `[]` hints and creation are covered by correspondence, the identity theorem covers non-creating plain paths"],
    design_ref="DESIGN.md §5 C02",
)

PROPS["C05"] = dict(
    title="Root-only load restriction confines every file read to its kustomization root",
    facts=True,
    modules=["Kust.Props.C05", "Kust.Props.C05b"],
    theorems=["Kust.C05.disk_load_confined", "Kust.C05.disk_new_root_checked", "Kust.C05.disk_cleanedAbs_spec", "Kust.C05.resolve_phys",
              "Kust.C05.hasPrefix_iff", "Kust.C05.R_prefix", "Kust.C05.word_prefix", "Kust.C05.clean_no_dots", "Kust.C05.restrict_sound",
              "Kust.C05.load_confined", "Kust.C05.new_root_rules", "Kust.C05.stack_nodup", "Kust.C05.readers_use_loader"],
    components=["path.clean", "path.hasprefix", "path.loader", "path.disk"],
    oracle=True,
    n_corr={"quick": 3000, "thorough": 40000}, n_oracle={"quick": 700, "thorough": 8000},
    technique="Lean 4 proof (the string test ConfirmedDir.HasPrefix is exactly the path-component prefix test; Clean leaves no dot segments; restrictor soundness; loader-stack distinctness; decide over the SSA-regenerated list of direct FS reads) + Go/Lean correspondence of Clean/Join, HasPrefix and the loader on the in-memory FS + canary oracle over every path-bearing field on in-memory and on-disk (symlinked) trees",
    level_text="Theorems: for all cleaned directories the containment test written on strings holds iff the root's components are a prefix of the directory's (so /root-evil is "
               "outside /root); Clean of an absolute path has no . / .. / empty segment for every spelling; an accepted load is a file below the root and returns that "
               "file's bytes; new roots are relative existing directories never equal/above a root on the stack, hence pairwise distinct; all direct reads in the build "
               "closure are the reviewed ones. On disk (Kust.PathDisk: lexical cleaning, then physical link resolution; tied to the real loader on real "
               "directory trees with symbolic links by path.disk): whatever links the tree holds, a successful Load returns the content of a file whose "
               "directory is reached through no link and lies at or below the root; a new root is a link-free directory that is neither a root in use nor above one.",
    level_note=COMMON_NOTE + "The FS model is the in-memory file system (quirks of its root handling included); OS path resolution is outside the model.",
    assumptions=["git/http loaders are outside the domain", "on-disk symlink semantics covered by the oracle"],
    design_ref="DESIGN.md §5 C05",
)

PROPS["C13"] = dict(
    title="YAML streams round-trip through the kio readers/writers; package writes stay inside the package",
    modules=["Kust.Props.C13", "Kust.Props.C13b"],
    theorems=["Kust.C13.multi_document_never_unwrapped", "Kust.C13.disabled_never_unwrapped", "Kust.C13.kept_order", "Kust.C13.lone_wrapper_unwrapped", "Kust.C13.lone_other_kind_kept",
              "Kust.C13.emit_read_back", "Kust.C13.scan_emit", "Kust.C13.scan_body", "Kust.C13.untilNewline_spec", "Kust.C13.startsSep_spec", "Kust.C13.scan_flatten", "Kust.C13.split_lossless",
              "Kust.C13.dotdot_stays", "Kust.C13.cleanSegs_base", "Kust.C13.pkg_write_confined", "Kust.C13.pkg_rejects_absolute", "Kust.C13.pkg_delete_confined"],
    components=["kio.split", "kio.pkgpath", "kio.emit", "kio.read"],
    oracle=True,
    n_corr={"quick": 3000, "thorough": 40000}, n_oracle={"quick": 600, "thorough": 8000},
    technique="Lean 4 proof (document splitting is lossless for every byte stream; every path annotation the package writer accepts resolves below the package directory, absolute and climbing spellings are rejected) + Go/Lean correspondence of ByteReader's document splitting and LocalPackageWriter's path validation + round-trip oracle (data vs the YAML library's own stream decoder, comment multiset, byte-identical second trip, no reader annotation left, in-memory FS write set)",
    level_text="PARTIAL. Theorems: splitting a stream at separator lines and concatenating the pieces gives back the stream, for every stream; "
               "for every path annotation accepted by the writer the target has the package directory as a path prefix (for all package dirs and all strings), "
               "absolute paths are rejected. What go-yaml does to one document (data, comments, styles) is third-party and NOT proved: the oracle samples it "
               "against go-yaml's own multi-document decoder with comments, CRLF, separators with comments and empty documents.",
    level_note=COMMON_NOTE + "go-yaml parse/emit of a single document is outside the model (oracle only).",
    assumptions=["go-yaml's per-document round trip is sampled, not proved", "package paths are slash-separated (the in-memory FS)"],
    design_ref="DESIGN.md §5 C13",
)

PROPS["C19"] = dict(
    title="Deprecated field spellings build to the same output as their replacements",
    modules=["Kust.Props.C19"],
    theorems=["Kust.C19.fixLoad_idem", "Kust.C19.fixLoad_no_deprecated", "Kust.C19.rewriteLoad_fix", "Kust.C19.load_spelling_same_build",
              "Kust.C19.bases_eq_resources", "Kust.C19.imageTags_eq_images", "Kust.C19.env_eq_envs",
              "Kust.C19.mergeAll_append", "Kust.C19.mergeAll_nil", "Kust.C19.default_table_distinct",
              "Kust.C19.commonLabels_step_eq", "Kust.C19.label_steps_fix", "Kust.C19.run_swap", "Kust.C19.disjoint_commute",
              "Kust.C19.plan_shape", "Kust.C19.editfix_preserves_build"],
    components=["fix.load", "fix.pre", "fix.mergeall"],
    oracle=True,
    n_corr={"quick": 3000, "thorough": 40000}, n_oracle={"quick": 150, "thorough": 2500},
    technique="Lean 4 proof (FixKustomization is idempotent and is the rewrite; the label entry made by edit fix configures the same run as commonLabels for every configuration with distinct specs, the regenerated default tables are distinct; edit fix = a reordering of runs, which preserves the result when the moved runs commute with the crossed ones; disjoint footprints commute) + Go/Lean correspondence of FixKustomization, FixKustomizationPreMarshalling, FsSlice.MergeAll + regenerated transformer order + whole-build oracle over spelling subsets and RunFix",
    level_text="PARTIAL. Theorems hold for every kustomization, transformer configuration and run semantics: load-time spellings reach the build as the same object; "
               "commonLabels and labels/includeSelectors configure the same label run (needs no `labels:` section in a custom configuration and pairwise distinct specs; "
               "decided for the regenerated default tables); edit fix moves strategic-merge patches after patches+JSON patches and JSON patches before "
               "namespace/prefix/suffix/labels/annotations, and the build is unchanged when the moved runs commute with those they cross, which disjoint read/write "
               "footprints guarantee. The effect of one transformer run is a parameter (not modelled here): equality of real builds is sampled by the oracle.",
    level_note=COMMON_NOTE + "The label configurator and plan are modelled by hand from kusttarget_configplugin.go (order regenerated); helm fields are outside the model.",
    assumptions=["a strategic-merge/JSON patch is the same run under either field (sampled by the oracle)", "no custom `labels:` field-spec section"],
    design_ref="DESIGN.md §5 C19",
)

PROPS["C17"] = dict(
    title="`kustomize edit` changes exactly what the sub-command says",
    modules=["Kust.Props.C17"],
    theorems=["Kust.C17.parseStep_comments", "Kust.C17.comments_kept", "Kust.C17.pieces_comments", "Kust.C17.pieces_fields",
              "Kust.C17.orig_order_kept", "Kust.C17.parsed_fields_sub", "Kust.C17.fields_out_perm", "Kust.C17.order_nodup",
              "Kust.C17.struct_fields_covered", "Kust.C17.field_names_match_keys",
              "Kust.C17.norm_idem", "Kust.C17.frame", "Kust.C17.frame_ops_field", "Kust.C17.namespace_untouched",
              "Kust.C17.patches_untouched", "Kust.C17.commonLabels_untouched", "Kust.C17.set_namespace_idem", "Kust.C17.mapSet_idem",
              "Kust.C17.mapDel_mapSet", "Kust.C17.add_remove_resource", "Kust.C17.mapHas_mapSet", "Kust.C17.add_remove_map",
              "Kust.C17.mapGet_mapSet_same", "Kust.C17.mapGet_mapSet_ne", "Kust.C17.mapGet_mapDel_same", "Kust.C17.mapGet_mapDel_ne",
              "Kust.C17.mapGet_mapSetAll_frame", "Kust.C17.mapGet_mapSetAll_last"],
    components=["edit.seq", "edit.rewrite"],
    oracle=True,
    n_corr={"quick": 2500, "thorough": 30000}, n_oracle={"quick": 800, "thorough": 10000},
    technique="Lean 4 proof (file rewriter: every comment/blank line of any text is among the written comment blocks in order, every field of the regenerated marshalling order is written once, originals first in original order; typed commands: frame for every command and every command sequence, idempotence and add/remove laws) + Go/Lean correspondence of 23 cobra sub-commands on operation sequences (parsed file vs model state after every step) and of the rewritten bytes + sequence oracle (parses, comments, frame, set twice, add/remove)",
    level_text="PARTIAL. Theorems, for every file text / every state and argument list: no comment or blank line is lost by the rewriter (false before fix C17-F1); "
               "each field is written exactly once; a command differs from the normalised content it read only in the field it addresses, and so does any sequence; "
               "set-namespace and map-set are idempotent; add-then-remove of a resource / map key restores the content; the label/annotation map refines a key→value function (set/remove/set-all change exactly the named keys, the last pair for a key wins). The YAML rendering and re-parsing of a field "
               "(sigs.k8s.io/yaml) is a parameter: its interaction with relocated comments is where findings C17-K1/K2 live, and is covered by the oracle only.",
    level_note=COMMON_NOTE + "Validators of labels/namespaces are no-ops in this tree; generatorOptions, helm and vars fields are outside the generated domain.",
    assumptions=["one field's YAML text is opaque (third-party marshaller)", "ASCII field lines (Unicode case folding of the line matcher not modelled)"],
    design_ref="DESIGN.md §5 C17",
)

PROPS["C18"] = dict(
    title="`kustomize localize` is confined, equivalent, and all-or-nothing",
    modules=["Kust.Props.C18"],
    theorems=["Kust.C18.prefix_comparable", "Kust.C18.applyMut_outside", "Kust.C18.doMut_inv", "Kust.C18.copyFile_inv",
              "Kust.C18.localizeRootWith_keeps", "Kust.C18.localizeOne_keeps", "Kust.C18.localizeRefs_keeps", "Kust.C18.localize_keeps",
              "Kust.C18.run_inv", "Kust.C18.writes_confined", "Kust.C18.source_unchanged", "Kust.C18.cleanup_restores",
              "Kust.C18.all_or_nothing", "Kust.C18.exPre",
              "Kust.C18.doMut_faith", "Kust.C18.loadFileAt_spec", "Kust.C18.localize_keepsB", "Kust.C18.destination_faithful"],
    components=["loc.run"],
    oracle=True,
    n_corr={"quick": 1500, "thorough": 20000}, n_oracle={"quick": 8, "thorough": 120},
    technique="Lean 4 proof (localize as a program over a file system with one failing operation: invariant 'nothing outside the destination changes, every mutating call is at or below it' through the recursion over roots; a failed run restores the file system) + Go/Lean correspondence on the in-memory FS (success flag, full mutating-call trace, final tree, with the k-th mutating call failing) + exhaustive fault sweep on real directories in a child process (every file-system call of every scenario made to fail once) with build equivalence of the copy",
    level_text="PARTIAL. Theorems, for every source tree, reference list, scope/destination, failing operation index and failing read set: all Mkdir/MkdirAll/"
               "WriteFile/RemoveAll calls address the destination or below; nothing outside it ever changes; if the run fails and the final RemoveAll is not itself the "
               "failing call, the file system is exactly the initial one (false before fixes C18-F1..F3); every file in the destination is a localized kustomization or a "
               "byte-identical copy of the source file at the mirrored path (destination_faithful). That every reference IS copied and the "
               "kustomization rewriting (hence build equivalence) is NOT proved (the "
               "kustomization rewriting and YAML are third-party): the sweep builds source and copy for every successful scenario. Symbolic links, remote targets "
               "and helm fields are outside the model.",
    level_note=COMMON_NOTE + "A failing operation has no effect in the model; kustomization parsing is an input (the harness parses, the entries Go walks in map order are restricted to one per kustomization in the trace correspondence).",
    assumptions=["a failing file-system call has no partial effect", "the clean-up RemoveAll itself does not fail", "no symbolic links in the source tree"],
    design_ref="DESIGN.md §5 C18",
)
